#!/usr/bin/env python3
"""Regenerates MANIFEST.json from claims.json (one entry per claimed property) and properties.jsonl."""
import json, subprocess
props = [json.loads(l) for l in open('/verif/properties.jsonl')]
claims = json.load(open('/verif/claims.json'))
hooks_commits = subprocess.run(['git','-C','/repo','log','--format=%H %s'],capture_output=True,text=True).stdout.strip().split('\n')
src = [l.split()[0] for l in hooks_commits if ' verif:' in l or ' hook:' in l]
m = {
 "version": 1,
 "setup_cmd": "cd /verif/engine && GOFLAGS=-mod=vendor GOPROXY=off GOSUMDB=off GOTOOLCHAIN=local go build -o /verif/bin/goverif ./cmd/goverif",
 "hooks": {
  "guard": "verif",
  "enable": "go build tag `verif`: comment-only contract files <pkg>/verif_contracts.go (//go:build verif) read by /verif/bin/goverif; replay tests are injected with `go test -overlay`, nothing else is added to the repository",
  "baseline_off_cmd": "cd /repo && go test -vet=off -count=1 ./...",
  "source_commits": src,
  "add_only": True,
 },
 "engines": [{
  "name": "goverif",
  "path": "/verif/engine",
  "serves_properties": sorted(claims["claimed"].keys()),
  "kind_free_text": "contract-based deductive verifier for Go written for this task: loads /repo with go/packages+go/ssa, reads //@ contracts, symbolically executes each function under contract (loops cut at invariants, calls replaced by callee contracts, panic exits through deferred calls), emits one SMT-LIB obligation per check, discharged by a z3-new/z3/cvc5 portfolio; counterexamples replayed on the real code via go test -overlay",
 }],
 "checks": [],
 "not_applicable": [],
 "notes": "See DESIGN.md. Every check is `./check <id>`; known findings are in known_findings.txt.",
}
for p in props:
    pid = p["id"]
    if pid in claims["claimed"]:
        c = claims["claimed"][pid]
        m["checks"].append({
            "property_id": pid,
            "quick_cmd": f"./check {pid} --tier quick",
            "thorough_cmd": f"./check {pid} --tier thorough",
            "evidence_file": f"/verif/evidence/{pid}.json",
            "replay_cmd_template": f"./check {pid} --replay {{path}}",
            "engine": "goverif",
            "level_claimed": {"category": "proof", "text": c["text"], "design_ref": c.get("design_ref", "DESIGN.md §4 "+pid)},
            "level_note": c["note"],
            "technique": c.get("technique", "contract-based deductive verification: weakest-precondition obligations over go/ssa of the real code, discharged by SMT (z3/cvc5)"),
        })
    else:
        m["not_applicable"].append({"property_id": pid, "reason": claims["not_applicable"].get(pid, "contracts for this property are not built yet in this revision of /verif (see DESIGN.md §6 build order)")})
json.dump(m, open('/verif/MANIFEST.json','w'), indent=1)
print("claimed:", len(m["checks"]), "not_applicable:", len(m["not_applicable"]))
