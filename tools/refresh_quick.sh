#!/bin/bash
# refresh_quick.sh <seed name>: re-run the check of the seed's property on a scratch copy with the seed applied and
# update caught_by / check_output in its meta.json (the confirmation verdict of the import is kept).
d=/verif/seeded/$1; p=$(python3 -c "import json;print(json.load(open('$d/meta.json'))['property'])")
S=$(mktemp -d /var/tmp/verif-qseed.XXXXXX)
rsync -a --exclude .git /repo/ "$S"/
(cd "$S" && patch -p1 -s --no-backup-if-mismatch < $d/patch.diff) || { echo "patch failed"; rm -rf "$S"; exit 2; }
mapfile -t viol < <(cd /verif && bin/goverif prop -id "$p" -tier quick -repo "$S" -verif /verif -evidence "$S/.evidence" 2>&1 | grep '^VIOLATION' | sed "s#replay=$S/.evidence/#replay=<scratch>/#")
rm -rf "$S"
python3 - "$d" "${viol[@]}" <<'PY'
import json,sys
d,viol=sys.argv[1],sys.argv[2:]
m=json.load(open(d+'/meta.json'))
m.setdefault('history',[]).append({'caught_by_before':m.get('caught_by')})
m['caught_by']=[v.split('obligation=')[1].split(' result=')[0] for v in viol if 'obligation=' in v]
m['check_output']=[v[:300] for v in viol]
json.dump(m,open(d+'/meta.json','w'),indent=1)
print(d.split('/')[-1],'caught_by', m['caught_by'][:4])
PY
