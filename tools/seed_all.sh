#!/bin/bash
# seed_all.sh <worktree> <prop>: confirm + test + import every seed under <worktree>/seeded/
for d in "$1"/seeded/*/; do
  out=$(/verif/tools/try_seed.sh "$d" "$2")
  verdict=$(echo "$out" | grep '^SEED')
  echo "$verdict"
  if echo "$verdict" | grep -q "builds=yes suite_passes=yes demo_fails_with=yes demo_passes_without=yes"; then
    mapfile -t viol < <(echo "$out" | grep '^VIOLATION')
    python3 /verif/tools/import_seed.py "$d" "$2" "$verdict" "${viol[@]}"
  else
    echo "  not confirmed, not imported"
  fi
done
