#!/bin/bash
# qseed.sh <seed name> [prop]: apply one seed to a scratch copy of /repo's working tree (uncommitted contract edits
# included) and run the check of its property there. Prints the VIOLATION lines (shortened).
set -u
cd /verif
d=seeded/$1
ID=${2:-$(python3 -c "import json;print(json.load(open('$d/meta.json'))['property'])")}
S=$(mktemp -d /var/tmp/verif-qseed.XXXXXX)
rsync -a --exclude .git /repo/ "$S"/
(cd "$S" && patch -p1 -s --no-backup-if-mismatch < /verif/$d/patch.diff) || { echo "patch failed"; rm -rf "$S"; exit 2; }
out=$(VERIF_NO_REPLAY=1 bin/goverif prop -id "$ID" -tier quick -repo "$S" -verif /verif -evidence "$S/.evidence" 2>&1)
echo "$out" | grep '^VIOLATION' | sed 's/replay=[^ ]* //' | cut -c1-220
echo "$out" | tail -1
rm -rf "$S"
