#!/usr/bin/env python3
"""import_seed.py <seed dir> <prop> <verdict line> <violation lines...>: copies a confirmed seed into /verif/seeded/."""
import json, os, shutil, sys
sd, pid, verdict = sys.argv[1], sys.argv[2], sys.argv[3]
viol = sys.argv[4:]
name = os.path.basename(sd.rstrip('/'))
dst = f'/verif/seeded/{name}'
os.makedirs(dst, exist_ok=True)
for f in ('patch.diff', 'demo_test.go'):
    shutil.copy(os.path.join(sd, f), dst)
meta = json.load(open(os.path.join(sd, 'meta.json')))
meta['property'] = pid
meta['confirmed_by_me'] = {
    'how': 'tools/try_seed.sh: scratch worktree of /repo HEAD; patch applied; go build ./...; go test of the touched packages; demo test with and without the patch; then patch applied to /repo, ./check run, patch undone',
    'verdict': verdict,
}
meta['caught_by'] = [v.split('obligation=')[1].split(' ')[0] for v in viol if 'obligation=' in v]
meta['check_output'] = viol
json.dump(meta, open(os.path.join(dst, 'meta.json'), 'w'), indent=1)
print('imported', dst, 'caught_by', meta['caught_by'])
