#!/bin/bash
# try_seed.sh <seed dir with patch.diff demo_test.go meta.json> <property id>
# 1. confirms the seed in a scratch worktree (builds, package tests pass, demo fails with / passes without),
# 2. applies it to /repo, runs ./check <id>, undoes it.  Prints a one-line verdict.
set -u
SD="$1"; PID="$2"
export GOFLAGS=-mod=mod GOPROXY=off GOSUMDB=off GOTOOLCHAIN=local
WT=/tmp/wt-confirm-$$
git -C /repo worktree add -q --detach $WT HEAD || exit 2
trap 'git -C /repo worktree remove --force $WT >/dev/null 2>&1' EXIT
place=$(grep -m1 -o 'place in: *[^ ]*' "$SD/demo_test.go" | sed 's/place in: *//')
RACE=""
grep -q -- "-race" "$SD/meta.json" 2>/dev/null && RACE="-race"
[ -z "$place" ] && { echo "SEED $SD: no 'place in' line"; exit 2; }
cp "$SD/demo_test.go" "$WT/$place/zz_seed_demo_test.go"
cd $WT
run=$(grep -o '^func Test[A-Za-z0-9_]*' $place/zz_seed_demo_test.go | sed 's/func //' | paste -sd'|')
base=$(go test $RACE -vet=off -count=1 -timeout 120s -run "^($run)\$" ./$place 2>&1 | tail -3)
echo "$base" | grep -q "^ok" && pass_without=yes || pass_without=no
git apply "$SD/patch.diff" || { echo "SEED $SD: patch does not apply"; exit 2; }
go build ./... >/dev/null 2>&1 && builds=yes || builds=no
with=$(go test $RACE -vet=off -count=1 -timeout 120s -run "^($run)\$" ./$place 2>&1 | tail -5)
echo "$with" | grep -q "FAIL\|DATA RACE" && fails_with=yes || fails_with=no
rm $place/zz_seed_demo_test.go
pkgs=$(git diff --name-only | xargs -n1 dirname | sort -u | sed 's#^#./#' | paste -sd' ')
suite=$(go test -vet=off -count=1 -timeout 600s $pkgs 2>&1 | tail -3)
echo "$suite" | grep -q "FAIL" && suite_ok=no || suite_ok=yes
cd /verif
# the check runs on the scratch worktree (HEAD of /repo plus the seed), so /repo itself may be edited meanwhile
out=$(VERIF_REPO=$WT bin/goverif prop -id "$PID" -tier quick -repo "$WT" -verif /verif -evidence "$WT/.evidence" 2>&1)
rc=$?
viol=$(echo "$out" | grep -c '^VIOLATION')
echo "SEED $(basename $SD) prop=$PID builds=$builds suite_passes=$suite_ok demo_fails_with=$fails_with demo_passes_without=$pass_without check_rc=$rc violations=$viol"
echo "$out" | grep '^VIOLATION' | cut -c1-260
