#!/bin/bash
# Records the parameter / result / local names the contracts are written against (rename tolerance, see
# engine/cmd/goverif/locals.go). Run after editing contracts, on the tree the contracts were written for.
cd /verif && bin/goverif locals -repo /repo -out /verif/locals.json
