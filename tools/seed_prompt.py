#!/usr/bin/env python3
"""Prints the prompt for an independent seeding sub-agent for one property (nothing from /verif is revealed)."""
import json, sys
pid = sys.argv[1]
n = sys.argv[2] if len(sys.argv) > 2 else "2"
start = int(sys.argv[3]) if len(sys.argv) > 3 else 1
round_tag = sys.argv[4] if len(sys.argv) > 4 else ""
for l in open('/verif/properties.jsonl'):
    p = json.loads(l)
    if p['id'] == pid:
        break
wt = f"/tmp/wt{round_tag}-{pid}"
import glob, os
avoid = []
for d in sorted(glob.glob(f"/verif/seeded/{pid}_*/meta.json")):
    try:
        avoid.append("- " + (json.load(open(d)).get("summary") or "")[:260].replace("\n", " "))
    except Exception:
        pass
avoid_txt = ("\n\nThese changes have already been studied; produce DIFFERENT ones (other functions, other mechanisms):\n" + "\n".join(avoid)) if avoid else ""
last = start + int(n) - 1
print(f"""You are testing how robust a Go library is against subtle regressions. Work ONLY inside the git worktree {wt} (a checkout of the library github.com/vulcand/oxy/v2, a set of net/http middlewares). Do not read or touch /repo or /verif, and ignore every file whose name starts with verif_contracts (they are comment-only and irrelevant to you).

Every go command needs this environment (there is no network): export GOFLAGS=-mod=mod GOPROXY=off GOSUMDB=off GOTOOLCHAIN=local

The property under study:

  {p['title']}

  {p['statement']}

  It is meant to hold {p['quantifier']['text']}.
  Code involved: {', '.join(p['anchors']['files'])}

Task: produce {n} DIFFERENT small source changes ("seeded bugs") to the library's non-test code, each of which
  (a) still compiles (go build ./... and go vet-free test compile: go test -vet=off -count=1 -run '^$' ./...),
  (b) still passes the library's existing test suite unchanged (go test -vet=off -count=1 $(go list ./... | grep -v /seeded/) ; the seeded/ directory you create must be excluded because its demo files are not a package; run at least the packages you touched plus their dependants; the whole suite takes a few minutes, it must pass), and
  (c) breaks the property above in a way that needs something SPECIFIC to manifest: a particular interleaving, a fault or panic at a particular point, a multi-step sequence of operations, an unusual input, or two cooperating sites that each look fine alone. Avoid changes that ordinary use would expose at once. Prefer realistic mistakes a maintainer could make in a refactoring (off-by-one, dropped reset, wrong comparison, missing defer, copying a pointer instead of a value, wrong lock, reordered statements), touching 1-10 lines.

{avoid_txt}

For each change k = {start}..{last} create the directory {wt}/seeded/{pid}_k/ containing:
  - patch.diff : the change as a unified diff against the worktree's HEAD (git diff output, applies with `git apply` at the repository root; it must contain ONLY the change to non-test library code),
  - demo_test.go : a Go test file (package clause of the package it must be placed in; say in its first comment line `// place in: <dir relative to repo root>`) that FAILS with the change applied and PASSES without it; it may be an in-package test using unexported identifiers; it must be deterministic (use the frozen clock of internal/holsterv4/clock where time matters: clock.Freeze / clock.Advance, as the existing tests do) and finish in under 30 s,
  - meta.json : {{"property": "{pid}", "summary": "...", "needs_to_manifest": "...", "files_changed": [...], "commands_run": [...]}}.
After writing the files for a change, revert the worktree's source to HEAD (git checkout -- . ; keep the seeded/ directory, it is untracked) before starting the next one. Verify each claim yourself by actually running the commands: apply patch -> build -> existing tests pass -> demo fails; revert -> demo passes. Report at the end, for each change: one-paragraph description, and the exact outcome of those commands. Do not create anything outside {wt}.""")
