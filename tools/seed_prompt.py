#!/usr/bin/env python3
"""Prints the prompt for an independent seeding sub-agent for one property (nothing from /verif is revealed)."""
import json, sys
pid = sys.argv[1]
n = sys.argv[2] if len(sys.argv) > 2 else "2"
for l in open('/verif/properties.jsonl'):
    p = json.loads(l)
    if p['id'] == pid:
        break
wt = f"/tmp/wt-{pid}"
print(f"""You are testing how robust a Go library is against subtle regressions. Work ONLY inside the git worktree {wt} (a checkout of the library github.com/vulcand/oxy/v2, a set of net/http middlewares). Do not read or touch /repo or /verif, and ignore every file whose name starts with verif_contracts (they are comment-only and irrelevant to you).

Every go command needs this environment (there is no network): export GOFLAGS=-mod=mod GOPROXY=off GOSUMDB=off GOTOOLCHAIN=local

The property under study:

  {p['title']}

  {p['statement']}

  It is meant to hold {p['quantifier']['text']}.
  Code involved: {', '.join(p['anchors']['files'])}

Task: produce {n} DIFFERENT small source changes ("seeded bugs") to the library's non-test code, each of which
  (a) still compiles (go build ./... and go vet-free test compile: go test -vet=off -count=1 -run '^$' ./...),
  (b) still passes the library's existing test suite unchanged (go test -vet=off -count=1 ./... ; run at least the packages you touched plus their dependants; the whole suite takes a few minutes, it must pass), and
  (c) breaks the property above in a way that needs something SPECIFIC to manifest: a particular interleaving, a fault or panic at a particular point, a multi-step sequence of operations, an unusual input, or two cooperating sites that each look fine alone. Avoid changes that ordinary use would expose at once. Prefer realistic mistakes a maintainer could make in a refactoring (off-by-one, dropped reset, wrong comparison, missing defer, copying a pointer instead of a value, wrong lock, reordered statements), touching 1-10 lines.

For each change k = 1..{n} create the directory {wt}/seeded/{pid}_k/ containing:
  - patch.diff : the change as a unified diff against the worktree's HEAD (git diff output, applies with `git apply` at the repository root; it must contain ONLY the change to non-test library code),
  - demo_test.go : a Go test file (package clause of the package it must be placed in; say in its first comment line `// place in: <dir relative to repo root>`) that FAILS with the change applied and PASSES without it; it may be an in-package test using unexported identifiers; it must be deterministic (use the frozen clock of internal/holsterv4/clock where time matters: clock.Freeze / clock.Advance, as the existing tests do) and finish in under 30 s,
  - meta.json : {{"property": "{pid}", "summary": "...", "needs_to_manifest": "...", "files_changed": [...], "commands_run": [...]}}.
After writing the files for a change, revert the worktree's source to HEAD (git checkout -- . ; keep the seeded/ directory, it is untracked) before starting the next one. Verify each claim yourself by actually running the commands: apply patch -> build -> existing tests pass -> demo fails; revert -> demo passes. Report at the end, for each change: one-paragraph description, and the exact outcome of those commands. Do not create anything outside {wt}.""")
