#!/usr/bin/env python3
"""Prints the markdown table of seeded changes (from /verif/seeded/*/meta.json) for DESIGN.md."""
import json, glob, os, re
rows=[]
for d in sorted(glob.glob('/verif/seeded/*/')):
    m=json.load(open(d+'meta.json'))
    name=os.path.basename(d.rstrip('/'))
    cb=m.get('caught_by') or []
    cb=[re.sub(r'^.*?\.(\(?\*?[A-Za-z]+\)?\.?[A-Za-z$0-9]*#.*)$', r'\1', c) for c in cb]
    cb=[c for c in cb if c!='engine:undecided'] or cb
    summ=(m.get('summary') or '').replace('\n',' ').replace('|','/')
    summ=summ[:150]+('…' if len(summ)>150 else '')
    files=','.join(os.path.basename(f) for f in (m.get('files_changed') or []))
    rows.append((name,m.get('property'),files,summ,'; '.join(cb[:3])+(' …' if len(cb)>3 else '') if cb else '**missed**'))
print('| seed | property | file | change | caught by (obligation) |')
print('|---|---|---|---|---|')
for r in rows: print('| '+' | '.join(str(x) for x in r)+' |')
caught=sum(1 for r in rows if r[4]!='**missed**')
print(f'\n{caught} of {len(rows)} seeded changes are reported by the check of their property.')
