#!/usr/bin/env python3
"""Prompt for an independent sub-agent that writes behaviour-preserving refactorings (nothing from /verif is revealed)."""
import json, sys
pid = sys.argv[1]
n = sys.argv[2] if len(sys.argv) > 2 else "2"
tag = sys.argv[3] if len(sys.argv) > 3 else "B1"
for l in open('/verif/properties.jsonl'):
    p = json.loads(l)
    if p['id'] == pid:
        break
wt = f"/tmp/wt{tag}-{pid}"
print(f"""You are preparing realistic, behaviour-preserving maintenance changes for a Go library. Work ONLY inside the git worktree {wt} (a checkout of github.com/vulcand/oxy/v2, a set of net/http middlewares). Do not read or touch /repo or /verif, and ignore every file whose name starts with verif_contracts (comment-only, irrelevant to you; do not edit them).

Every go command needs this environment (there is no network): export GOFLAGS=-mod=mod GOPROXY=off GOSUMDB=off GOTOOLCHAIN=local

The code you touch should be the code this property depends on:

  {p['title']}

  {p['statement']}

  Code involved: {', '.join(p['anchors']['files'])}

Task: produce {n} DIFFERENT small refactorings of the library's non-test code (5-40 changed lines each) that a maintainer might do while tidying up and that do NOT change behaviour in any way: the property above, and every other observable behaviour, must hold exactly as before, for every input and every interleaving. Typical examples: renaming receivers, parameters, named results or local variables; introducing or inlining an intermediate variable; extracting two or three statements into a small unexported helper function (or inlining such a helper); replacing an if/else chain by a switch or vice versa; inverting a condition and swapping the branches; reordering statements that are obviously independent; adding log lines through the existing logger; adding an unexported accessor method that nobody calls; adding comments; replacing `x = x + y` by `x += y`; hoisting a repeated sub-expression. Do NOT: change locking (what is locked, when, in which order), change which function calls are made or their order, change error values or messages, change any arithmetic result, add or remove goroutines, or touch exported API signatures.

For each change k = 1..{n} create the directory {wt}/benign/{pid}_k/ containing:
  - patch.diff : the change as a unified diff against the worktree's HEAD (git diff output; applies with `git apply` at the repository root; non-test library code only),
  - meta.json : {{"property": "{pid}", "summary": "...", "why_behaviour_is_unchanged": "...", "files_changed": [...], "commands_run": [...]}}.
Verify each one: apply -> go build ./... -> the whole existing test suite passes (go test -vet=off -count=1 $(go list ./... | grep -v /benign/ | grep -v /seeded/)); then revert the worktree's source (git checkout -- . ; keep the untracked benign/ directory) before the next one. Never run git stash. Report at the end, per change, a short description and the command outcomes. Do not create anything outside {wt}.""")
