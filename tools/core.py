#!/usr/bin/env python3
"""Debug helper: greedy minimal unsat core of the (assert ...) lines of an SMT-LIB script."""
import subprocess, sys
lines = [l for l in open(sys.argv[1]).read().split('\n') if not l.startswith('(check-sat') and not l.startswith('(get-')]
drop_goal = len(sys.argv) > 2 and sys.argv[2] == 'nogoal'
if drop_goal:
    lines = [l for l in lines if not l.startswith('(assert (not')]
asserts = [i for i, l in enumerate(lines) if l.startswith('(assert')]
def sat(keep):
    txt = '\n'.join(l for i, l in enumerate(lines) if not l.startswith('(assert') or i in keep) + '\n(check-sat)\n'
    open('/tmp/core_b.smt2', 'w').write(txt)
    return subprocess.run(['z3-new', '-T:5', '/tmp/core_b.smt2'], capture_output=True, text=True, stdin=subprocess.DEVNULL).stdout.split('\n')[0]
keep = set(asserts)
print('all:', sat(keep))
if sat(keep) != 'unsat':
    sys.exit(0)
for i in asserts:
    k2 = keep - {i}
    if sat(k2) == 'unsat':
        keep = k2
for i in sorted(keep):
    print(lines[i][:500])
