#!/bin/bash
# refresh_seed.sh <seed name> : re-run the check against a stored seed and update its meta.json
d=/verif/seeded/$1; p=$(python3 -c "import json;print(json.load(open('$d/meta.json'))['property'])")
out=$(/verif/tools/try_seed.sh $d $p)
verdict=$(echo "$out" | grep '^SEED'); echo "$verdict"
mapfile -t viol < <(echo "$out" | grep '^VIOLATION')
python3 - "$d" "$verdict" "${viol[@]}" <<'PY'
import json,sys
d,verdict,viol=sys.argv[1],sys.argv[2],sys.argv[3:]
m=json.load(open(d+'/meta.json'))
m.setdefault('history',[]).append({'caught_by_before':m.get('caught_by')})
m['caught_by']=[v.split('obligation=')[1].split(' ')[0] for v in viol if 'obligation=' in v]
m['confirmed_by_me']['verdict']=verdict
m['check_output']=[v[:300] for v in viol]
json.dump(m,open(d+'/meta.json','w'),indent=1)
print(' caught_by', m['caught_by'][:4])
PY
