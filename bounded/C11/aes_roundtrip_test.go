// bounded-pkg: roundrobin/stickycookie
// bounded-func: stickycookie.(*AESValue).Get / (*AESValue).fromValue (sealed text: crypto/cipher, base64, fmt are outside the contract language)
// bounded-bound: 14 server URLs (userinfo, query, '|' in query, escaped path, IPv6) x ttl in {0, 1h} x key sizes 16/24/32; every single-character change and every truncation of each minted cookie; expiry at ttl-1s, ttl, ttl+1s
package stickycookie

// Bounded stand-in (NOT a proof): fromValue(Get(u)) == u.String() for the corpus, every tampered or truncated value is
// refused without panic, a value is accepted up to its expiry and refused after it.

import (
	"net/url"
	"testing"
	"time"

	"github.com/vulcand/oxy/v2/internal/holsterv4/clock"
)

func TestVerifBoundedAESRoundTrip(t *testing.T) {
	done := clock.Freeze(time.Date(2024, 5, 1, 12, 0, 0, 0, time.UTC))
	defer done.Unfreeze()
	corpus := []string{
		"http://10.0.0.1:8080", "http://10.0.0.2:8080/", "https://b.example/app", "http://user:pw@c.example:81/x",
		"http://d.example/p?shard=1", "http://e.example/a%20b", "http://f.example/q?x=a|b", "http://[::1]:9/v6",
		"http://g.example/p?x=1|2|3", "http://h.example/caf%C3%A9/", "http://i.example/a%7Cb", "http://j.example/?", "http://k.example/a;b=c", "http://l.example//dup",
	}
	keys := [][]byte{[]byte("0123456789abcdef"), []byte("0123456789abcdef01234567"), []byte("0123456789abcdef0123456789abcdef")}
	n := 0
	for _, key := range keys {
		for _, ttl := range []time.Duration{0, time.Hour} {
			v, err := NewAESValue(key, ttl)
			if err != nil {
				t.Fatal(err)
			}
			for _, s := range corpus {
				u, err := url.Parse(s)
				if err != nil {
					t.Fatal(err)
				}
				c := v.Get(u)
				got, err := v.fromValue(c)
				if err != nil || got != u.String() {
					t.Fatalf("ttl %v: cookie of %s opens as %q, %v", ttl, s, got, err)
				}
				n++
				// truncations and single-character changes are refused, never a panic
				for i := 0; i < len(c); i++ {
					for _, bad := range []string{c[:i], c[:i] + flip(c[i]) + c[i+1:]} {
						func() {
							defer func() {
								if r := recover(); r != nil {
									t.Fatalf("value %q: panic %v", bad, r)
								}
							}()
							if g, err := v.fromValue(bad); err == nil && g == u.String() && bad != c {
								// base64 ignores the unused low bits of the last character: same bytes, not a forgery
								if i != len(c)-1 {
									t.Fatalf("tampered value %q accepted", bad)
								}
							}
						}()
						n++
					}
				}
				if ttl > 0 {
					for _, adv := range []time.Duration{ttl - time.Second, ttl, ttl + time.Second} {
						clock.Advance(adv)
						_, err := v.fromValue(c)
						if (adv <= ttl) != (err == nil) {
							t.Fatalf("cookie of %s after %v (ttl %v): err %v", s, adv, ttl, err)
						}
						clock.Advance(-adv)
					}
				}
			}
		}
	}
	t.Logf("%d values checked", n)
}

func flip(b byte) string {
	if b == 'A' {
		return "B"
	}
	return "A"
}
