// bounded-pkg: utils
// bounded-func: utils.CopyHeaders (assumed contract)
// bounded-props: C06 C07 C15 C20
// bounded-bound: all pairs of header maps over keys {A,B} with value lists of length 0..2 over values {"", x, y} (dst and src independently)
package utils

// Bounded stand-in (NOT a proof) for the assumed contract of CopyHeaders in verif_contracts.go.

import (
	"net/http"
	"testing"
)

func vbLists() [][]string {
	vals := []string{"", "x", "y"}
	out := [][]string{nil, {}}
	for _, a := range vals {
		out = append(out, []string{a})
		for _, b := range vals {
			out = append(out, []string{a, b})
		}
	}
	return out
}

func vbMaps() []http.Header {
	var out []http.Header
	ls := vbLists()
	for ia := -1; ia < len(ls); ia++ {
		for ib := -1; ib < len(ls); ib++ {
			h := http.Header{}
			if ia >= 0 {
				h["A"] = append([]string(nil), ls[ia]...)
				if ls[ia] == nil {
					h["A"] = nil
				}
			}
			if ib >= 0 {
				h["B"] = append([]string(nil), ls[ib]...)
			}
			out = append(out, h)
		}
	}
	return out
}

func TestVerifBoundedCopyHeaders(t *testing.T) {
	n := 0
	for _, d0 := range vbMaps() {
		for _, src := range vbMaps() {
			dst := d0.Clone()
			if dst == nil {
				dst = http.Header{}
			}
			before := dst.Clone()
			srcBefore := src.Clone()
			CopyHeaders(dst, src)
			for _, k := range []string{"A", "B", "C"} {
				_, inD := before[k]
				_, inS := src[k]
				if _, in := dst[k]; in != (inD || inS) {
					t.Fatalf("keys: %v + %v -> %v", before, src, dst)
				}
				want := src.Get(k)
				if before.Get(k) != "" || len(before[k]) > 0 {
					want = before.Get(k)
				}
				if dst.Get(k) != want {
					t.Fatalf("first value of %s: %v + %v -> %v", k, before, src, dst)
				}
				// not shared with the source: writing through dst must not change src
				if !inD && len(dst[k]) > 0 {
					dst[k][0] = "mutated"
					if len(src[k]) > 0 && src[k][0] == "mutated" {
						t.Fatalf("value list of %s shared with the source", k)
					}
				}
			}
			for k, v := range srcBefore {
				if len(src[k]) != len(v) {
					t.Fatalf("source changed")
				}
			}
			n++
		}
	}
	t.Logf("checked %d map pairs", n)
}
