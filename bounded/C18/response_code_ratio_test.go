// bounded-pkg: memmetrics
// bounded-func: memmetrics: the assumed axiom bucket_sum_is_window_sum (sum over the buckets = sum over the window's slots) as ResponseCodeRatio uses it (the function itself is proved against it)
// bounded-bound: exhaustive over status codes {199,200,201,399,400,401,499,500,501,599,600} recorded 0..2 times each in 3-code combinations and all ranges with bounds in that set
package memmetrics

// Bounded stand-in (NOT a proof) for an assumed axiom. ResponseCodeRatio itself is proved: its result is the quotient of
// two sums, over the recorded codes in range, of wcount(counter, now); that wcount - the sum of the increments recorded in
// the window's slots - equals what Count() adds up over the buckets is the assumed re-indexing axiom. This test compares
// ResponseCodeRatio with the direct definition over the recorded responses, i.e. it exercises exactly that axiom.

import (
	"testing"
	"time"

	"github.com/vulcand/oxy/v2/internal/holsterv4/clock"
)

func TestVerifBoundedResponseCodeRatio(t *testing.T) {
	done := clock.Freeze(time.Date(2024, 1, 1, 0, 0, 0, 0, time.UTC)).Unfreeze
	defer done()
	codes := []int{199, 200, 201, 399, 400, 401, 499, 500, 501, 599, 600}
	bounds := []int{0, 200, 201, 400, 500, 501, 600, 601}
	for i := 0; i < len(codes); i++ {
		for j := i; j < len(codes); j += 3 {
			for k := j; k < len(codes); k += 4 {
				m, err := NewRTMetrics()
				if err != nil {
					t.Fatal(err)
				}
				rec := map[int]int64{}
				for n, c := range []int{codes[i], codes[j], codes[k]} {
					for r := 0; r <= n%3; r++ {
						m.Record(c, time.Millisecond)
						rec[c]++
					}
				}
				for _, sa := range bounds {
					for _, ea := range bounds {
						for _, sb := range []int{0, 200, 500} {
							for _, eb := range []int{500, 600, 601} {
								var a, b int64
								for c, n := range rec {
									if c >= sa && c < ea {
										a += n
									}
									if c >= sb && c < eb {
										b += n
									}
								}
								want := 0.0
								if b != 0 {
									want = float64(a) / float64(b)
								}
								if got := m.ResponseCodeRatio(sa, ea, sb, eb); got != want {
									t.Fatalf("recorded %v: ResponseCodeRatio(%d,%d,%d,%d) = %v, definition gives %v", rec, sa, ea, sb, eb, got, want)
								}
							}
						}
					}
				}
			}
		}
	}
}
