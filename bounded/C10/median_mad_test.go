// bounded-pkg: memmetrics
// bounded-func: sort.Float64s through memmetrics.median / medianAbsoluteDeviation (assumed contract: order statistics)
// bounded-bound: every list of length 1..6 over the values {0, 0.1, 0.25, 0.5, 1}: result equals the middle order statistic (mean of the two middle ones for even length) found by counting, the deviation is the median of the absolute distances to it, the argument is left unchanged
// bounded-bound-thorough: every list of length 1..7 over the values {0, 0.1, 0.25, 0.5, 1}: same checks
package memmetrics

// Bounded stand-in (NOT a proof) for the assumed contract of sort.Float64s: median and medianAbsoluteDeviation are proved
// over it (position k of the sorted copy is the k-th order statistic). Here their results are compared, on every small
// list, with the definition of the order statistics by counting (no sorting involved).

import (
	"math"
	"os"
	"testing"
)

// vbKth: the k-th smallest element (0-based) by counting: the value v with #{x < v} <= k < #{x <= v}.
func vbKth(vals []float64, k int) float64 {
	for _, v := range vals {
		lt, le := 0, 0
		for _, x := range vals {
			if x < v {
				lt++
			}
			if x <= v {
				le++
			}
		}
		if lt <= k && k < le {
			return v
		}
	}
	panic("no order statistic")
}

func vbMedian(vals []float64) float64 {
	n := len(vals)
	if n%2 != 0 {
		return vbKth(vals, n/2)
	}
	return (vbKth(vals, n/2-1) + vbKth(vals, n/2)) / 2.0
}

func TestVerifBoundedMedianMAD(t *testing.T) {
	dom := []float64{0, 0.1, 0.25, 0.5, 1}
	maxLen := 6
	if os.Getenv("VERIF_TIER") == "thorough" {
		maxLen = 7
	}
	count := 0
	var rec func(cur []float64)
	rec = func(cur []float64) {
		if len(cur) >= 1 {
			in := append([]float64(nil), cur...)
			want := vbMedian(cur)
			if got := median(in); got != want {
				t.Fatalf("median(%v) = %v, by counting %v", cur, got, want)
			}
			dist := make([]float64, len(cur))
			for i, v := range cur {
				dist[i] = math.Abs(v - want)
			}
			wantMAD := vbMedian(dist)
			if got := medianAbsoluteDeviation(in); got != wantMAD {
				t.Fatalf("medianAbsoluteDeviation(%v) = %v, by counting %v", cur, got, wantMAD)
			}
			for i := range in {
				if in[i] != cur[i] {
					t.Fatalf("argument modified: %v -> %v", cur, in)
				}
			}
			count++
		}
		if len(cur) == maxLen {
			return
		}
		for _, v := range dom {
			rec(append(cur, v))
		}
	}
	rec(nil)
	if count == 0 {
		t.Fatal("nothing explored")
	}
	t.Logf("explored %d lists", count)
}
