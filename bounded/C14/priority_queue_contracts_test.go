// bounded-pkg: internal/holsterv4/collections
// bounded-func: container/heap.{Init,Push,Pop,Remove} on collections.pqImpl (assumed contracts; the PriorityQueue wrapper and pqImpl's methods are proved against them), exercised through PriorityQueue.{Push,Pop,Peek,Update,Remove}
// bounded-props: C03 C13 C14
// bounded-bound: every sequence of up to 4 operations (whose preconditions hold) over 4 items with priorities in {0,1,2,3}, plus every insertion order of 5 distinct priorities followed by pops; heap shape checked after every step
// bounded-bound-thorough: every sequence of up to 5 operations (whose preconditions hold) over 4 items with priorities in {0,1,2,3}, plus every insertion order of 6 distinct priorities followed by pops; heap shape checked after every step
package collections

// Bounded stand-in (NOT a proof) for the assumed contracts of container/heap. The PriorityQueue wrapper and the five
// heap.Interface methods of pqImpl are proved (verif_contracts.go: pqRep, heapOK); what stays assumed is that
// container/heap's Init / Push / Pop / Remove, driven through those call-backs, keep the slice a heap whose items carry
// their positions, add / remove exactly the named item and mark a removed one with index -1. The wrapper's contracts over
// the ghost view (membership set, length, top, the items' Priority), which follow from those assumptions, are evaluated
// here on the real code for every operation sequence within the bound, heap shape and index fields after every step.

import (
	"os"
	"testing"
)

type vbOp struct{ kind, item, prio int } // kind: 0 push 1 pop 2 peek 3 update 4 remove

func TestVerifBoundedPriorityQueueContracts(t *testing.T) {
	const nItems, nPrio = 4, 4
	depth := 4
	perm := 5
	if os.Getenv("VERIF_TIER") == "thorough" {
		depth = 5
		perm = 6
	}
	var ops []vbOp
	for it := 0; it < nItems; it++ {
		for pr := 0; pr < nPrio; pr++ {
			ops = append(ops, vbOp{0, it, pr}, vbOp{3, it, pr})
		}
		ops = append(ops, vbOp{4, it, 0})
	}
	ops = append(ops, vbOp{1, 0, 0}, vbOp{2, 0, 0})
	count := 0
	var seq []vbOp
	// run replays seq on a fresh queue; false = a precondition of the last operation does not hold (prune)
	run := func(seq []vbOp) bool {
		pq := NewPriorityQueue()
		items := make([]*PQItem, nItems)
		for i := range items {
			items[i] = &PQItem{Value: i}
		}
		in := map[*PQItem]bool{}
		minOK := func(r *PQItem) bool {
			for it := range in {
				if it.Priority < r.Priority {
					return false
				}
			}
			return true
		}
		for step, op := range seq {
			it := items[op.item]
			switch op.kind {
			case 0:
				if in[it] {
					return false // precondition !qin[el]
				}
				it.Priority = op.prio
				pq.Push(it)
				in[it] = true
			case 1:
				if len(in) == 0 {
					return false // precondition qlen > 0
				}
				top := pq.Peek()
				r := pq.Pop()
				if r == nil || !in[r] || !minOK(r) || r != top {
					t.Fatalf("Pop contract violated at step %d of %v", step, seq)
				}
				delete(in, r)
			case 2:
				if len(in) == 0 {
					return false
				}
				r := pq.Peek()
				if r == nil || !in[r] || !minOK(r) {
					t.Fatalf("Peek contract violated at step %d of %v", step, seq)
				}
			case 3:
				if !in[it] {
					return false
				}
				pq.Update(it, op.prio)
				if it.Priority != op.prio {
					t.Fatalf("Update contract violated at step %d of %v", step, seq)
				}
			case 4:
				if !in[it] {
					return false
				}
				pq.Remove(it)
				delete(in, it)
			}
			if pq.Len() != len(in) {
				t.Fatalf("qlen %d != |qin| %d at step %d of %v", pq.Len(), len(in), step, seq)
			}
			seen := map[*PQItem]bool{}
			for i, x := range *pq.impl {
				seen[x] = true
				// heap shape (stronger than the contracts, implies them for every later operation)
				if i > 0 && (*pq.impl)[(i-1)/2].Priority > x.Priority {
					t.Fatalf("heap order broken at slot %d after step %d of %v", i, step, seq)
				}
				if x.index != i {
					t.Fatalf("index field of slot %d is %d after step %d of %v", i, x.index, step, seq)
				}
			}
			for x := range in {
				if !seen[x] {
					t.Fatalf("item lost at step %d of %v", step, seq)
				}
			}
		}
		count++
		return true
	}
	var rec func(d int)
	rec = func(d int) {
		if !run(seq) || d == depth {
			return
		}
		for _, op := range ops {
			seq = append(seq, op)
			rec(d + 1)
			seq = seq[:len(seq)-1]
		}
	}
	rec(0)
	// every insertion order of `perm` distinct priorities, then pops: each pop returns the minimum, the shape holds
	prios := make([]int, perm)
	for i := range prios {
		prios[i] = i
	}
	var permute func(k int)
	permute = func(k int) {
		if k == len(prios) {
			pq := NewPriorityQueue()
			for _, pr := range prios {
				pq.Push(&PQItem{Value: pr, Priority: pr})
				for i, x := range *pq.impl {
					if i > 0 && (*pq.impl)[(i-1)/2].Priority > x.Priority {
						t.Fatalf("heap order broken after pushing %v", prios)
					}
				}
			}
			for want := 0; want < len(prios); want++ {
				if got := pq.Pop().Priority; got != want {
					t.Fatalf("insertion order %v: pop %d returned priority %d", prios, want, got)
				}
			}
			count++
			return
		}
		for i := k; i < len(prios); i++ {
			prios[k], prios[i] = prios[i], prios[k]
			permute(k + 1)
			prios[k], prios[i] = prios[i], prios[k]
		}
	}
	permute(0)
	if count == 0 {
		t.Fatal("no sequence explored")
	}
	t.Logf("explored %d operation sequences", count)
}
