// bounded-pkg: internal/holsterv4/collections
// bounded-func: collections.(*PriorityQueue).{Push,Pop,Peek,Update,Remove} (assumed contracts over container/heap)
// bounded-bound: every sequence of up to 5 operations (whose preconditions hold) over 3 items with priorities in {0,1,2}
// bounded-bound-thorough: every sequence of up to 6 operations (whose preconditions hold) over 3 items with priorities in {0,1,2}
package collections

// Bounded stand-in (NOT a proof): PriorityQueue delegates to container/heap through heap.Interface call-backs, which is
// outside the verifier's reach. The contracts assumed in verif_contracts.go (ghost membership set qin, qlen, qtop and the
// items' Priority) are evaluated here on the real code for every operation sequence within the bound.

import (
	"os"
	"testing"
)

type vbOp struct{ kind, item, prio int } // kind: 0 push 1 pop 2 peek 3 update 4 remove

func TestVerifBoundedPriorityQueueContracts(t *testing.T) {
	const nItems, nPrio = 3, 3
	depth := 5
	if os.Getenv("VERIF_TIER") == "thorough" {
		depth = 6
	}
	var ops []vbOp
	for it := 0; it < nItems; it++ {
		for pr := 0; pr < nPrio; pr++ {
			ops = append(ops, vbOp{0, it, pr}, vbOp{3, it, pr})
		}
		ops = append(ops, vbOp{4, it, 0})
	}
	ops = append(ops, vbOp{1, 0, 0}, vbOp{2, 0, 0})
	count := 0
	var seq []vbOp
	// run replays seq on a fresh queue; false = a precondition of the last operation does not hold (prune)
	run := func(seq []vbOp) bool {
		pq := NewPriorityQueue()
		items := make([]*PQItem, nItems)
		for i := range items {
			items[i] = &PQItem{Value: i}
		}
		in := map[*PQItem]bool{}
		minOK := func(r *PQItem) bool {
			for it := range in {
				if it.Priority < r.Priority {
					return false
				}
			}
			return true
		}
		for step, op := range seq {
			it := items[op.item]
			switch op.kind {
			case 0:
				if in[it] {
					return false // precondition !qin[el]
				}
				it.Priority = op.prio
				pq.Push(it)
				in[it] = true
			case 1:
				if len(in) == 0 {
					return false // precondition qlen > 0
				}
				top := pq.Peek()
				r := pq.Pop()
				if r == nil || !in[r] || !minOK(r) || r != top {
					t.Fatalf("Pop contract violated at step %d of %v", step, seq)
				}
				delete(in, r)
			case 2:
				if len(in) == 0 {
					return false
				}
				r := pq.Peek()
				if r == nil || !in[r] || !minOK(r) {
					t.Fatalf("Peek contract violated at step %d of %v", step, seq)
				}
			case 3:
				if !in[it] {
					return false
				}
				pq.Update(it, op.prio)
				if it.Priority != op.prio {
					t.Fatalf("Update contract violated at step %d of %v", step, seq)
				}
			case 4:
				if !in[it] {
					return false
				}
				pq.Remove(it)
				delete(in, it)
			}
			if pq.Len() != len(in) {
				t.Fatalf("qlen %d != |qin| %d at step %d of %v", pq.Len(), len(in), step, seq)
			}
			seen := map[*PQItem]bool{}
			for _, x := range *pq.impl {
				seen[x] = true
			}
			for x := range in {
				if !seen[x] {
					t.Fatalf("item lost at step %d of %v", step, seq)
				}
			}
		}
		count++
		return true
	}
	var rec func(d int)
	rec = func(d int) {
		if !run(seq) || d == depth {
			return
		}
		for _, op := range ops {
			seq = append(seq, op)
			rec(d + 1)
			seq = seq[:len(seq)-1]
		}
	}
	rec(0)
	if count == 0 {
		t.Fatal("no sequence explored")
	}
	t.Logf("explored %d operation sequences", count)
}
