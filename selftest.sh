#!/bin/bash
# selftest.sh <Cxx> : thorough-tier self test of the check of one property.
# Every seeded change recorded for the property (/verif/seeded/<name>/patch.diff) is applied to a scratch copy of /repo's
# current working tree (never to /repo itself) and the check is run on the copy: it must report a violation there
# (must-fail canaries: a check that has gone vacuous or lost a contract stops noticing them). A patch that no longer
# applies to the current tree is skipped and named. Exit 0: all applicable canaries noticed; exit 2: a canary was missed
# (the machinery, not the property, is at fault; no VIOLATION line is printed for that).
set -u
cd "$(dirname "$0")"
ID="$1"
REPO="${VERIF_REPO:-/repo}"
export GOFLAGS=-mod=mod GOPROXY=off GOSUMDB=off GOTOOLCHAIN=local
rc=0; n=0; caught=0; skipped=0
for d in seeded/*/; do
  [ -f "$d/meta.json" ] || continue
  p=$(python3 -c "import json,sys;print(json.load(open('$d/meta.json')).get('property',''))")
  [ "$p" = "$ID" ] || continue
  S=$(mktemp -d /var/tmp/verif-selftest.XXXXXX)
  rsync -a --exclude .git "$REPO"/ "$S"/
  if ! (cd "$S" && patch -p1 -s --no-backup-if-mismatch < "$OLDPWD/$d/patch.diff" >/dev/null 2>&1); then
    echo "SELFTEST $ID $(basename $d): patch no longer applies to the current tree (skipped)"
    skipped=$((skipped+1)); rm -rf "$S"; continue
  fi
  n=$((n+1))
  out=$(VERIF_NO_REPLAY=1 bin/goverif prop -id "$ID" -tier quick -repo "$S" -verif "$(pwd)" -evidence "$S/.evidence" 2>&1)
  if echo "$out" | grep -q '^VIOLATION'; then
    caught=$((caught+1))
    echo "SELFTEST $ID $(basename $d): noticed ($(echo "$out" | grep -c '^VIOLATION') obligation(s))"
  else
    echo "SELFTEST $ID $(basename $d): NOT noticed"
    rc=2
  fi
  rm -rf "$S"
done
echo "SELFTEST $ID: $caught of $n seeded changes noticed, $skipped skipped"
exit $rc
