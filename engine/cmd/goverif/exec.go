package main

// Symbolic execution of go/ssa functions against contracts; produces obligations.

import (
	"fmt"
	"go/ast"
	"go/token"
	"go/types"
	"regexp"
	"sort"
	"strings"

	"golang.org/x/tools/go/ssa"
)

type Obligation struct {
	Name    string // stable name: pkg.func#kind:label
	Func    string
	Kind    string
	Props   []string
	Assumes []string
	Goal    string
	PathID  int
	Trace   []string
	Static  bool // decided without a solver (Goal is "true"/"false")
	Cover   bool // vacuity probe: expected SAT (goal is the path condition itself)
	Src     string
	Decls   []string // filled at emission
	Result  string   // unsat(discharged) | sat | unknown | timeout | error
	Solver  string
	TimeS   float64
	Model   string
	Script  string
	Strings bool
	Inputs  map[string]string // symbolic inputs: name -> SMT term (for replay)
}

type Exec struct {
	e           *Engine
	fn          *ssa.Function
	fc          *FuncContract
	pkg         string
	obs         []*Obligation
	npaths      int
	maxPaths    int
	loops       map[*ssa.Function]map[*ssa.BasicBlock]*Loop
	errs        []string
	params      map[string]Val
	paramOrd    []string
	inlineDepth int
	clockStable bool
	inGlobalInv bool
	evArgsSkip  int
	selfVal0    *Val
	onlySafety  bool
	lastCallArgs []Val          // arguments (receiver included) of the call being executed
	guardedAll  map[string]bool // lazily: every heap key guarded by some lock
	fcModKeys   map[string]bool // lazily: heap keys named by the modifies clause of x.fc
}

type Loop struct {
	Ord  int
	Head *ssa.BasicBlock
	Body map[*ssa.BasicBlock]bool
}

type Cont struct {
	ret func(p *Path, res []Val)
	pan func(p *Path)
}

func (x *Exec) errorf(f string, a ...interface{}) {
	x.errs = append(x.errs, fmt.Sprintf(f, a...))
}

// ---- loops -------------------------------------------------------------

func (x *Exec) loopsOf(fn *ssa.Function) map[*ssa.BasicBlock]*Loop {
	if l, ok := x.loops[fn]; ok {
		return l
	}
	res := map[*ssa.BasicBlock]*Loop{}
	for _, b := range fn.Blocks {
		for _, pred := range b.Preds {
			if b.Dominates(pred) { // back edge pred -> b
				l := res[b]
				if l == nil {
					l = &Loop{Head: b, Body: map[*ssa.BasicBlock]bool{b: true}}
					res[b] = l
				}
				// natural loop: nodes that reach pred without passing b
				var stack []*ssa.BasicBlock
				if !l.Body[pred] {
					l.Body[pred] = true
					stack = append(stack, pred)
				}
				for len(stack) > 0 {
					n := stack[len(stack)-1]
					stack = stack[:len(stack)-1]
					for _, q := range n.Preds {
						if !l.Body[q] {
							l.Body[q] = true
							stack = append(stack, q)
						}
					}
				}
			}
		}
	}
	var heads []*ssa.BasicBlock
	for h := range res {
		heads = append(heads, h)
	}
	// source order: by position of the first instruction with a position, fallback block index
	sort.Slice(heads, func(i, j int) bool { return blockPos(heads[i]) < blockPos(heads[j]) })
	for i, h := range heads {
		res[h].Ord = i + 1
	}
	x.loops[fn] = res
	return res
}

func blockPos(b *ssa.BasicBlock) int {
	// Loop headers created for "for" statements may have no positioned instruction; use the minimum
	// position over the loop body as an approximation of source order, falling back to the index.
	min := token.Pos(1 << 30)
	for _, in := range b.Instrs {
		if p := in.Pos(); p.IsValid() && p < min {
			min = p
		}
	}
	if min == token.Pos(1<<30) {
		for _, s := range b.Succs {
			for _, in := range s.Instrs {
				if p := in.Pos(); p.IsValid() && p < min {
					min = p
				}
			}
		}
	}
	if min == token.Pos(1<<30) {
		return 1<<30 + b.Index
	}
	return int(min)
}

// ---- entry -------------------------------------------------------------

func (x *Exec) newPath() *Path {
	x.npaths++
	p := &Path{id: x.npaths, elemStores: map[string][]Val{}, heap: map[string]string{}, cells: map[string]Val{}, escaped: map[string]bool{}, locks: map[string]string{}, lockObj: map[string]lockRef{}, nonnil: map[string]bool{}}
	p.brk = x.e.fresh("brk", "Int")
	p.assume("(> " + p.brk + " 1)")
	p.clock = x.e.fresh("clock", "Int")
	return p
}

func (x *Exec) obName(kind, label string) string {
	n := shortTypeKey(x.e.funcKey(x.fn)) + "#" + kind
	if label != "" {
		n += ":" + label
	}
	return n
}

func (x *Exec) oblige(p *Path, kind, label, goal string, props []string, src string) *Obligation {
	if p.dead {
		return nil
	}
	ob := &Obligation{Name: x.obName(kind, label), Func: shortTypeKey(x.e.funcKey(x.fn)), Kind: kind, Props: props, Goal: goal, PathID: p.id, Src: src, Strings: x.e.stringMode}
	ob.Assumes = append([]string(nil), p.assumes...)
	ob.Trace = append([]string(nil), p.trace...)
	if goal == "true" || goal == "false" {
		ob.Static = true
	}
	ob.Inputs = map[string]string{}
	for k, v := range x.params {
		if v.K == KScalar {
			ob.Inputs[k] = v.S
		}
	}
	x.obs = append(x.obs, ob)
	return ob
}

func (x *Exec) evalCtx(p *Path, vars map[string]Val) *EvalCtx {
	var fr *FrameState
	if len(p.frames) > 0 {
		fr = p.frames[0]
		if len(p.frames) == 1 {
			fr = p.top()
		}
	}
	return &EvalCtx{x: x, p: p, old: p.oldSnap, vars: vars, frame: fr, pkg: x.pkg, events: p.events}
}

// Verify generates the obligations of one function under its contract.
// renameLabel rewrites the leading identifier of a lock label (`cl.mutex`) if the source now spells it differently.
func renameLabel(lbl string, ren map[string]string) string {
	head, rest := lbl, ""
	if i := strings.Index(lbl, "."); i >= 0 {
		head, rest = lbl[:i], lbl[i:]
	}
	if now := ren[head]; now != "" {
		return now + rest
	}
	return lbl
}

func (x *Exec) Verify() {
	fn, fc := x.fn, x.fc
	if ren := x.e.renamesOf(fn); fc != nil && len(ren) > 0 && (fc.Atomic != "" || len(fc.Holds) > 0) {
		// lock labels are compared textually with the labels of the SSA values: follow renamed receivers / parameters
		c2 := *fc
		c2.Atomic = renameLabel(fc.Atomic, ren)
		c2.Holds = nil
		c2.HoldsRead = map[string]bool{}
		for _, h := range fc.Holds {
			h2 := renameLabel(h, ren)
			c2.Holds = append(c2.Holds, h2)
			if fc.HoldsRead[h] {
				c2.HoldsRead[h2] = true
			}
		}
		fc = &c2
		x.fc = fc
	}
	x.pkg = fn.Pkg.Pkg.Path()
	p := x.newPath()
	fr := &FrameState{fn: fn, env: map[ssa.Value]Val{}, names: map[string]Val{}, loopMeas: map[*ssa.BasicBlock][]string{}, inLoop: map[*ssa.BasicBlock]bool{}}
	p.frames = []*FrameState{fr}
	x.params = map[string]Val{}
	for i, prm := range fn.Params {
		v := x.e.freshVal(p, prm.Type(), prm.Name())
		v.Label = prm.Name()
		fr.env[prm] = v
		fr.names[prm.Name()] = v
		x.params[prm.Name()] = v
		x.params[prm.Name()+"0"] = v
		x.paramOrd = append(x.paramOrd, prm.Name())
		if i == 0 && fn.Signature.Recv() != nil && v.K == KScalar {
			if _, ok := prm.Type().Underlying().(*types.Pointer); ok {
				p.assume("(> " + v.S + " 0)")
				p.nonnil[v.S] = true
				x.e.note("receiver is non-nil on entry")
			}
		}
	}
	for was, now := range x.e.renamesOf(fn) {
		if v, ok := x.params[now]; ok {
			if _, taken := x.params[was]; !taken {
				x.params[was] = v
				x.params[was+"0"] = v
			}
		}
	}
	for _, fv := range fn.FreeVars {
		v := x.e.freshVal(p, fv.Type().(*types.Pointer).Elem(), fv.Name())
		v.Label = fv.Name()
		cell := "fv:" + fv.Name()
		p.cells[cell] = v
		x.e.note("variables captured by a closure are not modified while the closure runs")
		a := Val{K: KAddr, T: fv.Type(), A: &Addr{Kind: ALocal, Cell: cell, ET: fv.Type().(*types.Pointer).Elem(), Label: fv.Name()}}
		fr.env[fv] = a
		fr.names[fv.Name()] = a
	}
	p.oldSnap = p.snap()
	if fc != nil {
		for _, h := range fc.Holds {
			mode := "w"
			if fc.HoldsRead[h] {
				mode = "r"
			}
			x.assumeHeld(p, h, mode)
		}
		for _, c := range fc.Assumes {
			if c.Src == "clock_stable" {
				// one clock value per operation: fix it before the preconditions are evaluated
				x.clockStable = true
				t := x.e.fresh("now", "Int")
				p.assume("(>= " + t + " " + p.clock + ")")
				p.clock = t
				x.e.note("assume clock_stable: one clock value per operation (" + shortTypeKey(x.e.funcKey(fn)) + ")")
			}
		}
		ctx := x.evalCtx(p, x.params)
		ctx.old = nil
		for _, c := range fc.Requires {
			s, err := ctx.EvalBool(c.E)
			if err != nil {
				x.errorf("%s:%d: requires: %v", c.File, c.Line, err)
				continue
			}
			p.assume(s)
		}
		for _, c := range fc.Assumes {
			if c.Src == "clock_stable" {
				continue
			}
			s, err := ctx.EvalBool(c.E)
			if err != nil {
				x.errorf("%s:%d: assume: %v", c.File, c.Line, err)
				continue
			}
			p.assume(s)
			x.e.note("assume in " + shortTypeKey(x.e.funcKey(fn)) + ": " + c.Src)
		}
		// package axioms and proved lemmas
		x.assumeAxioms(p)
		p.oldSnap = p.snap()
		// vacuity probe: preconditions must be satisfiable
		ob := x.oblige(p, "vacuity", "requires_sat", "false", nil, "requires /\\ axioms satisfiable")
		if ob != nil {
			ob.Cover = true
			ob.Static = false
		}
	}
	if prm, tc := x.recvInv(fn); tc != nil {
		// a method of a type with invariants: they hold on entry (established at creation, preserved by every method,
		// and nothing else writes the fields they mention)
		terms, _ := x.invTerms(p, tc, x.params[prm.Name()])
		for _, t := range terms {
			p.assume(t)
		}
		p.oldSnap = p.snap()
		x.e.note("type invariants of " + shortTypeKey(typeKey(prm.Type())) + " assumed at method entry, proved at every method's exit")
	}
	if len(fn.Blocks) == 0 {
		x.errorf("function %s has no body", fn)
		return
	}
	if fc != nil && len(fc.Wiring) > 0 {
		x.checkWiring(p, fn, fc)
	}
	if fn.Parent() != nil && fc != nil {
		// a closure literal: its own identity is available as `self` (for function-type contracts)
		x.params["self"] = Val{K: KFunc, T: fn.Type(), S: x.e.fresh("self", "Int")}
	}
	k := &Cont{
		ret: func(p *Path, res []Val) { x.checkExit(p, res, false) },
		pan: func(p *Path) { x.checkExit(p, nil, true) },
	}
	x.enterBlock(p, fn.Blocks[0], nil, k)
}

// holdsMutexByValue: the struct has a sync.Mutex / RWMutex field by value (directly or in a nested struct).
func holdsMutexByValue(st *types.Struct, depth int) bool {
	if depth > 3 {
		return false
	}
	for i := 0; i < st.NumFields(); i++ {
		ft := st.Field(i).Type()
		if _, isPtr := types.Unalias(ft).(*types.Pointer); isPtr {
			continue
		}
		if isMutexType(ft) {
			return true
		}
		if s2, ok := ft.Underlying().(*types.Struct); ok && holdsMutexByValue(s2, depth+1) {
			return true
		}
	}
	return false
}

// ---- private objects: allocated by this activation and not yet reachable by any other code ----------------------------

// escapeOnStore: a private object whose address is stored anywhere but into a field of another private object (or a
// local) becomes reachable by other code.
func (x *Exec) escapeOnStore(p *Path, a *Addr, v Val) {
	if len(p.private) == 0 {
		return
	}
	switch a.Kind {
	case ALocal:
		return
	case AField:
		if _, ok := p.private[a.Obj]; ok {
			return
		}
	}
	x.escapeVal(p, v)
}

func (x *Exec) escapeVal(p *Path, v Val) {
	if len(p.private) == 0 {
		return
	}
	switch v.K {
	case KScalar, KIface, KFunc:
		if _, ok := p.private[v.S]; ok {
			// what the object points to becomes reachable with it: give up on all of them (conservative)
			p.private = map[string]string{}
		}
	case KStruct, KTuple:
		for _, f := range v.Fs {
			x.escapeVal(p, f)
		}
	case KSlice, KAddr:
		// slices / addresses of private objects are not tracked: conservative
		if v.K == KAddr && v.A != nil && v.A.Kind == AField {
			if _, ok := p.private[v.A.Obj]; ok {
				p.private = map[string]string{}
			}
		}
	}
}

func (x *Exec) escapeArgs(p *Path, args []Val) {
	for _, a := range args {
		x.escapeVal(p, a)
	}
}

// ---- type invariants (`inv` in a type block): thread-confined objects whose fields only their methods write ---------

// invType: the contract of the struct type behind t (T or *T) if it declares invariants.
func (x *Exec) invType(t types.Type) *TypeContract {
	if t == nil {
		return nil
	}
	if pt, ok := t.Underlying().(*types.Pointer); ok {
		t = pt.Elem()
	}
	tc := x.e.cs.Types[typeKey(t)]
	if tc == nil || len(tc.Invs) == 0 {
		return nil
	}
	return tc
}

// recvInv: the receiver of fn and its type contract if fn is a method of a type with invariants.
func (x *Exec) recvInv(fn *ssa.Function) (*ssa.Parameter, *TypeContract) {
	if fn == nil || fn.Signature.Recv() == nil || len(fn.Params) == 0 {
		return nil, nil
	}
	tc := x.invType(fn.Params[0].Type())
	if tc == nil {
		return nil, nil
	}
	return fn.Params[0], tc
}

// invTerms evaluates the invariants of tc for the object v in the current state of p.
func (x *Exec) invTerms(p *Path, tc *TypeContract, v Val) (terms []string, clauses []*Clause) {
	for _, li := range tc.Invs {
		ctx := x.evalCtx(p, map[string]Val{li.Self: v})
		ctx.pkg = tc.Pkg
		ctx.old = nil
		ctx.frame = nil
		s, err := ctx.EvalBool(li.C.E)
		if err != nil {
			x.errorf("%s:%d: inv: %v", li.C.File, li.C.Line, err)
			continue
		}
		terms = append(terms, s)
		clauses = append(clauses, li.C)
	}
	return
}

// invMentions: field / ghost names the invariants of tc talk about (by name).
func invMentions(tc *TypeContract) map[string]bool {
	out := map[string]bool{}
	var walk func(e Expr)
	walk = func(e Expr) {
		switch e := e.(type) {
		case *ESel:
			out[e.F] = true
			walk(e.X)
		case *EIndex:
			walk(e.X)
			walk(e.I)
		case *EBinary:
			walk(e.L)
			walk(e.R)
		case *EUnary:
			walk(e.X)
		case *ECall:
			for _, a := range e.Args {
				walk(a)
			}
		case *EQuant:
			walk(e.Body)
		}
	}
	for _, li := range tc.Invs {
		walk(li.C.E)
	}
	return out
}

// reassumeRecvInv: arbitrary code ran inside a method of a type with invariants. That code can reach the receiver only
// through its methods, each of which is verified to preserve the invariants, unless the call handed it part of the
// representation (a value loaded from a field the invariants mention): then nothing is assumed.
func (x *Exec) reassumeRecvInv(p *Path) {
	prm, tc := x.recvInv(x.fn)
	if tc == nil {
		return
	}
	recv, ok := x.params[prm.Name()]
	if !ok {
		return
	}
	ment := invMentions(tc)
	tk := typeKey(prm.Type())
	for _, a := range x.lastCallArgs {
		if a.Own != nil && a.Own.TKey == tk && ment[a.Own.Field] {
			x.e.note("representation of " + shortTypeKey(tk) + " handed to unknown code in " + shortTypeKey(x.e.funcKey(x.fn)) + ": its invariants are not assumed afterwards")
			return
		}
	}
	terms, _ := x.invTerms(p, tc, recv)
	for _, t := range terms {
		p.assume(t)
	}
}

func (x *Exec) assumeAxioms(p *Path) {
	ctx := x.evalCtx(p, nil)
	ctx.old = nil
	for pkgPath, axs := range x.e.cs.Axioms {
		_ = pkgPath
		for _, c := range axs {
			if !x.usesAxiomPkg(c) {
				continue
			}
			if x.fc != nil && (x.fc.NoAxioms[c.Label] || (x.fc.OnlyAxioms != nil && !x.fc.OnlyAxioms[c.Label])) {
				continue
			}
			d := *ctx
			d.pkg = pkgOfFile(x.e, c.File)
			s, err := d.EvalBool(c.E)
			if err != nil {
				if strings.Contains(err.Error(), "`strings` flag") {
					continue // string-level axiom, function verified with uninterpreted strings
				}
				x.errorf("%s:%d: axiom: %v", c.File, c.Line, err)
				continue
			}
			x.assumeOnce(p, s)
			x.e.note("axiom " + c.Label + ": " + c.Src)
		}
	}
	for _, ls := range x.e.cs.Lemmas {
		for _, c := range ls {
			if !x.usesAxiomPkg(c) {
				continue
			}
			if x.fc != nil && (x.fc.NoAxioms[c.Label] || (x.fc.OnlyAxioms != nil && !x.fc.OnlyAxioms[c.Label])) {
				continue
			}
			d := *ctx
			d.pkg = pkgOfFile(x.e, c.File)
			s, err := d.EvalBool(c.E)
			if err != nil {
				x.errorf("%s:%d: lemma: %v", c.File, c.Line, err)
				continue
			}
			x.assumeOnce(p, s)
		}
	}
}

var qnumRe = regexp.MustCompile(`\.\d+\|`)

func (x *Exec) assumeOnce(p *Path, s string) {
	n := qnumRe.ReplaceAllString(s, "|")
	for _, a := range p.assumes {
		if a == s || (len(a) == len(s) && qnumRe.ReplaceAllString(a, "|") == n) || qnumRe.ReplaceAllString(a, "|") == n {
			return
		}
	}
	p.assume(s)
}

func pkgOfFile(e *Engine, file string) string {
	rel := strings.TrimPrefix(strings.TrimPrefix(file, e.repo), "/")
	if i := strings.LastIndex(rel, "/"); i >= 0 {
		return oxyMod + "/" + rel[:i]
	}
	return oxyMod
}

// usesAxiomPkg: axioms of a package apply to functions of that package and of packages whose contracts mention its spec functions.
func (x *Exec) usesAxiomPkg(c *Clause) bool {
	// axioms and lemmas are scoped to the contract file that states them: they apply to the functions whose
	// contracts live in the same file (keeps unrelated arithmetic facts out of the queries)
	if x.fc != nil && x.fc.File != "" {
		return c.File == x.fc.File
	}
	return pkgOfFile(x.e, c.File) == x.pkg
}

// ---- blocks --------------------------------------------------------------

func (x *Exec) enterBlock(p *Path, b *ssa.BasicBlock, from *ssa.BasicBlock, k *Cont) {
	if p.dead {
		return
	}
	fr := p.top()
	loops := x.loopsOf(fr.fn)
	// phis
	phiVals := map[*ssa.Phi]Val{}
	for _, in := range b.Instrs {
		phi, ok := in.(*ssa.Phi)
		if !ok {
			break
		}
		idx := -1
		for i, pr := range b.Preds {
			if pr == from {
				idx = i
				break
			}
		}
		if idx < 0 {
			x.errorf("phi without matching predecessor in %s", fr.fn)
			return
		}
		phiVals[phi] = x.val(p, phi.Edges[idx])
	}
	for phi, v := range phiVals {
		fr.env[phi] = v
		if phi.Comment != "" {
			fr.names[phi.Comment] = v
		}
	}
	if l := loops[b]; l != nil {
		lc := x.loopContract(fr, l)
		backEdge := from != nil && l.Body[from] && fr.inLoop[b]
		iterCell := ""
		for bb := range l.Body {
			for _, in := range bb.Instrs {
				if nx, ok := in.(*ssa.Next); ok {
					iterCell = x.iterCell(fr, nx.Iter)
				}
			}
		}
		ctx := x.evalCtx(p, x.ctxVars(p))
		ctx.frame = fr
		ctx.preferFrame = true
		ctx.iterCell = iterCell
		if fr.loopIter == nil {
			fr.loopIter = map[*ssa.BasicBlock]string{}
		}
		if backEdge {
			ctx.loopIter = "(+ " + fr.loopIter[b] + " 1)"
		} else {
			ctx.loopIter = "0"
		}
		if !backEdge {
			// entry: check invariants, havoc, assume invariants
			for _, c := range lc.Invariants {
				s, err := ctx.EvalBool(c.E)
				if err != nil {
					x.errorf("%s:%d: invariant: %v", c.File, c.Line, err)
					continue
				}
				x.oblige(p, fmt.Sprintf("loop%d:entry", l.Ord), c.Label, s, c.Props, c.Src)
			}
			x.havocLoop(p, fr, l)
			x.assumeAxioms(p)
			ctx = x.evalCtx(p, x.ctxVars(p))
			ctx.frame = fr
			ctx.preferFrame = true
			ctx.iterCell = iterCell
			li := x.e.fresh("loopiter", "Int")
			p.assume("(>= " + li + " 0)")
			fr.loopIter[b] = li
			ctx.loopIter = li
			for _, c := range lc.Invariants {
				s, err := ctx.EvalBool(c.E)
				if err == nil {
					p.assume(s)
				}
			}
			var meas []string
			for _, d := range lc.Decreases {
				s, err := ctx.EvalTerm(d)
				if err != nil {
					x.errorf("decreases: %v", err)
					continue
				}
				m := x.e.fresh("measure", "Int")
				p.assume(eq(m, s))
				meas = append(meas, m)
			}
			fr.loopMeas[b] = meas
			fr.inLoop[b] = true
			if fr.loopEvents == nil {
				fr.loopEvents = map[*ssa.BasicBlock]int{}
			}
			fr.loopEvents[b] = len(p.events)
			p.trace = append(p.trace, fmt.Sprintf("loop%d:enter", l.Ord))
		} else {
			// the call log of earlier iterations is not kept: a postcondition may only count calls that no completed
			// iteration makes (every such call must be followed by leaving the loop)
			if x.fc != nil && fr.depth == 0 {
				base := fr.loopEvents[b]
				for _, key := range x.eventKeysOfContract(x.fc) {
					n := 0
					if base <= len(p.events) {
						for _, ev := range p.events[base:] {
							if eventMatches(ev.Key, key) {
								n++
							}
						}
					}
					goal := "true"
					if n > 0 {
						goal = "false"
					}
					x.oblige(p, fmt.Sprintf("loop%d:calllog", l.Ord), sanitizeSym(key), goal, nil, "a completed loop iteration calls "+key+", which a postcondition of this function counts (the call log of earlier iterations is not kept)")
				}
			}
			for _, c := range lc.Invariants {
				s, err := ctx.EvalBool(c.E)
				if err != nil {
					x.errorf("%s:%d: invariant: %v", c.File, c.Line, err)
					continue
				}
				x.oblige(p, fmt.Sprintf("loop%d:preserve", l.Ord), c.Label, s, c.Props, c.Src)
			}
			// facts about every completed iteration: calls / callarg / callres range over the calls this iteration made
			if len(lc.Iteration) > 0 {
				ictx := *ctx
				if base := fr.loopEvents[b]; base <= len(p.events) {
					ictx.events = p.events[base:]
				}
				for _, c := range lc.Iteration {
					s, err := ictx.EvalBool(c.E)
					if err != nil {
						x.errorf("%s:%d: iteration: %v", c.File, c.Line, err)
						continue
					}
					x.oblige(p, fmt.Sprintf("loop%d:iteration", l.Ord), c.Label, s, c.Props, c.Src)
				}
			}
			if len(lc.Decreases) > 0 {
				old := fr.loopMeas[b]
				var news []string
				for _, d := range lc.Decreases {
					s, err := ctx.EvalTerm(d)
					if err != nil {
						x.errorf("decreases: %v", err)
						continue
					}
					news = append(news, s)
				}
				if len(news) == len(old) && len(old) > 0 {
					// lexicographic decrease, bounded below by 0
					var disj []string
					prefixEq := "true"
					for i := range old {
						disj = append(disj, and(prefixEq, "(< "+news[i]+" "+old[i]+")", "(>= "+old[i]+" 0)"))
						prefixEq = and(prefixEq, eq(news[i], old[i]))
					}
					x.oblige(p, fmt.Sprintf("loop%d:decreases", l.Ord), "", or(disj...), nil, lc.DecSrc)
				}
			}
			return // path ends at the cut point
		}
	}
	p.trace = append(p.trace, fmt.Sprintf("b%d", b.Index))
	x.execFrom(p, b, 0, k)
}

var unknownIdentRe = regexp.MustCompile(`unknown identifier "([A-Za-z_][A-Za-z0-9_]*)"`)

// isLocalName: name of a local variable (or named result) of the function under verification.
func (x *Exec) isLocalName(name string) bool {
	if x.fn == nil {
		return false
	}
	if now := x.e.renamesOf(x.fn)[name]; now != "" {
		name = now
	}
	for _, b := range x.fn.Blocks {
		for _, in := range b.Instrs {
			if d, ok := in.(*ssa.DebugRef); ok {
				if id, ok := d.Expr.(*ast.Ident); ok && id.Name == name {
					return true
				}
			}
		}
	}
	return false
}

// eventKeysOfContract: the call keys the function's postconditions mention (calls / callarg / callres / before).
func (x *Exec) eventKeysOfContract(fc *FuncContract) []string {
	seen := map[string]bool{}
	var out []string
	var walk func(e Expr)
	walk = func(e Expr) {
		switch e := e.(type) {
		case *ECall:
			switch e.Fn {
			case "calls", "callarg", "callres", "panicked":
				if len(e.Args) > 0 {
					k := renameLabel(callKeyOf(e.Args[0]), x.e.renamesOf(x.fn))
					if !seen[k] {
						seen[k] = true
						out = append(out, k)
					}
				}
			case "before":
				for _, a := range e.Args {
					k := renameLabel(callKeyOf(a), x.e.renamesOf(x.fn))
					if !seen[k] {
						seen[k] = true
						out = append(out, k)
					}
				}
			}
			for _, a := range e.Args {
				walk(a)
			}
		case *EUnary:
			walk(e.X)
		case *EBinary:
			walk(e.L)
			walk(e.R)
		case *ESel:
			walk(e.X)
		case *EIndex:
			walk(e.X)
			walk(e.I)
		case *EQuant:
			walk(e.Body)
		}
	}
	for _, c := range fc.Ensures {
		walk(c.E)
	}
	for _, c := range fc.EnsPanic {
		walk(c.E)
	}
	sort.Strings(out)
	return out
}

func (x *Exec) loopContract(fr *FrameState, l *Loop) *LoopContract {
	if len(fr.fn.Blocks) > 0 && fr.depth == 0 && x.fc != nil {
		if lc := x.fc.Loops[l.Ord]; lc != nil {
			return lc
		}
	}
	if fr.depth > 0 {
		if fc := x.e.contractOf(fr.fn); fc != nil {
			if lc := fc.Loops[l.Ord]; lc != nil {
				return lc
			}
		} else if x.fc != nil && len(x.fc.Loops) > 0 {
			// a loop that was moved into a small helper without contract (extract-function refactoring): the invariants
			// the verified function declares beyond its own loops are tried for it, in order. They are checked like any
			// invariant (entry, preservation), so a wrong match can only fail, never prove too much.
			own := len(x.loopsOf(x.fn))
			if lc := x.fc.Loops[own+l.Ord]; lc != nil {
				x.e.note("loop " + fmt.Sprint(own+l.Ord) + " of " + shortTypeKey(x.e.funcKey(x.fn)) + " is now in the helper " + fr.fn.Name() + ": its invariants are applied there")
				return lc
			}
		}
	}
	return &LoopContract{}
}

// ctxVars: parameter bindings of the outermost function.
func (x *Exec) ctxVars(p *Path) map[string]Val {
	return x.params
}

// havocLoop forgets everything the loop body may modify.
func (x *Exec) havocLoop(p *Path, fr *FrameState, l *Loop) {
	// phis at the head
	for _, in := range l.Head.Instrs {
		phi, ok := in.(*ssa.Phi)
		if !ok {
			break
		}
		v := x.e.freshVal(p, phi.Type(), phi.Name()+"_"+phi.Comment)
		if phi.Comment == "rangeindex" && v.K == KScalar {
			// range loops over slices count up from -1
			p.assume("(>= " + v.S + " (- 1))")
		}
		fr.env[phi] = v
		if phi.Comment != "" {
			fr.names[phi.Comment] = v
		}
	}
	all := false
	allStrong := false // an oxy function with `modifies everything` is called: not even lock-protected state survives
	seen := map[*ssa.Function]bool{}
	var scan func(fn *ssa.Function, blocks map[*ssa.BasicBlock]bool, top bool)
	targets := map[string][]string{} // key -> object terms ("" = whole)
	addKey := func(key, obj string) {
		if obj == "" {
			targets[key] = []string{""}
			return
		}
		if cur, ok := targets[key]; ok && len(cur) == 1 && cur[0] == "" {
			return
		}
		targets[key] = append(targets[key], obj)
	}
	cells := map[string]bool{}
	defined := func(v ssa.Value) bool { // defined outside the loop (value available now)
		if in, ok := v.(ssa.Instruction); ok {
			if in.Block() != nil && in.Parent() == fr.fn && l.Body[in.Block()] {
				return false
			}
		}
		_, ok := fr.env[v]
		if !ok {
			switch v.(type) {
			case *ssa.Const, *ssa.Global, *ssa.Parameter, *ssa.FreeVar:
				return true
			}
		}
		return ok
	}
	var invariantVal func(v ssa.Value) (Val, bool)
	invariantVal = func(v ssa.Value) (Val, bool) {
		if defined(v) {
			return x.val(p, v), true
		}
		if u, ok := v.(*ssa.UnOp); ok && u.Op == token.MUL {
			if fa, ok := u.X.(*ssa.FieldAddr); ok {
				st := structOf(fa.X.Type())
				f := st.Field(fa.Field)
				tkey := typeKey(fa.X.Type())
				if x.e.isImmutableField(tkey, f.Name()) {
					if bv, ok := invariantVal(fa.X); ok && bv.K == KScalar {
						return x.e.loadField(p, nil, bv.S, tkey, f.Name(), f.Type()), true
					}
				}
			}
		}
		return Val{}, false
	}
	type deferredElem struct {
		fa *ssa.FieldAddr
		et types.Type
	}
	var deferred []deferredElem
	var addrTargets func(a ssa.Value, top bool)
	addrTargets = func(a ssa.Value, top bool) {
		switch a := a.(type) {
		case *ssa.FieldAddr:
			st := structOf(a.X.Type())
			tkey := typeKey(a.X.Type())
			f := st.Field(a.Field)
			obj := ""
			if top && defined(a.X) {
				ov := x.val(p, a.X)
				if ov.K == KScalar {
					obj = ov.S
				}
			}
			for _, lf := range x.e.leaves(f.Type()) {
				x.e.keySort[fieldKey(tkey, f.Name(), lf.Path)] = arrSort("Int", lf.Sort)
				addKey(fieldKey(tkey, f.Name(), lf.Path), obj)
			}
		case *ssa.IndexAddr:
			var et types.Type
			switch u := a.X.Type().Underlying().(type) {
			case *types.Slice:
				et = u.Elem()
			case *types.Pointer:
				if ar, ok := u.Elem().Underlying().(*types.Array); ok {
					et = ar.Elem()
				}
			}
			if et == nil {
				all = true
				return
			}
			obj := ""
			if top && defined(a.X) {
				ov := x.val(p, a.X)
				if ov.K == KSlice || ov.K == KScalar {
					obj = ov.S
				}
			} else if top {
				// slice re-loaded inside the loop from a field of a loop-invariant object: c.values[i] = ...
				if u, ok := a.X.(*ssa.UnOp); ok {
					if fa, ok := u.X.(*ssa.FieldAddr); ok && defined(fa.X) {
						deferred = append(deferred, deferredElem{fa: fa, et: et})
						return
					}
				}
			}
			for _, lf := range x.e.leaves(et) {
				x.e.keySort[elemKey(et, lf.Path)] = arrSort("Int", arrSort("Int", lf.Sort))
				addKey(elemKey(et, lf.Path), obj)
			}
		case *ssa.Alloc:
			cells[x.cellName(fr, a)] = true
		case *ssa.Global:
			addKey("G:"+a.Pkg.Pkg.Path()+"."+a.Name(), "")
		case *ssa.FreeVar:
			cells["fv:"+a.Name()] = true
		default:
			all = true
		}
	}
	type deferredMap struct {
		mt types.Type
		v  ssa.Value
	}
	var deferredMaps []deferredMap
	mapKeysObj := func(mt types.Type, obj string) {
		mm := mt.Underlying().(*types.Map)
		ks := x.e.sortOf(mm.Key())
		for _, lf := range x.e.leaves(mm.Elem()) {
			k := "M:" + mapKeyBase(mt) + lf.Path
			x.e.keySort[k] = arrSort("Int", arrSort(ks, lf.Sort))
			addKey(k, obj)
		}
		x.e.keySort["MD:"+mapKeyBase(mt)] = arrSort("Int", arrSort(ks, "Bool"))
		x.e.keySort["ML:"+mapKeyBase(mt)] = arrSort("Int", "Int")
		addKey("MD:"+mapKeyBase(mt), obj)
		addKey("ML:"+mapKeyBase(mt), obj)
	}
	mapKeys := func(mt types.Type) {
		mm := mt.Underlying().(*types.Map)
		ks := x.e.sortOf(mm.Key())
		for _, lf := range x.e.leaves(mm.Elem()) {
			k := "M:" + mapKeyBase(mt) + lf.Path
			x.e.keySort[k] = arrSort("Int", arrSort(ks, lf.Sort))
			addKey(k, "")
		}
		x.e.keySort["MD:"+mapKeyBase(mt)] = arrSort("Int", arrSort(ks, "Bool"))
		x.e.keySort["ML:"+mapKeyBase(mt)] = arrSort("Int", "Int")
		addKey("MD:"+mapKeyBase(mt), "")
		addKey("ML:"+mapKeyBase(mt), "")
	}
	scan = func(fn *ssa.Function, blocks map[*ssa.BasicBlock]bool, top bool) {
		for _, b := range fn.Blocks {
			if blocks != nil && !blocks[b] {
				continue
			}
			for _, in := range b.Instrs {
				switch in := in.(type) {
				case *ssa.Store:
					addrTargets(in.Addr, top)
				case *ssa.MapUpdate:
					if top {
						deferredMaps = append(deferredMaps, deferredMap{in.Map.Type(), in.Map})
					} else {
						mapKeys(in.Map.Type())
					}
				case *ssa.Next:
					if top {
						cells[x.iterCell(fr, in.Iter)] = true
					}
				case *ssa.Go:
					// spawned goroutine: effects are not part of this thread's state
				case ssa.CallInstruction:
					cc := in.Common()
					if b, ok := cc.Value.(*ssa.Builtin); ok {
						switch b.Name() {
						case "delete":
							if top {
								deferredMaps = append(deferredMaps, deferredMap{cc.Args[0].Type(), cc.Args[0]})
							} else {
								mapKeys(cc.Args[0].Type())
							}
						case "append", "copy":
							if sl, ok := cc.Args[0].Type().Underlying().(*types.Slice); ok {
								for _, lf := range x.e.leaves(sl.Elem()) {
									x.e.keySort[elemKey(sl.Elem(), lf.Path)] = arrSort("Int", arrSort("Int", lf.Sort))
									addKey(elemKey(sl.Elem(), lf.Path), "")
								}
							}
						}
						continue
					}
					callee := cc.StaticCallee()
					if callee == nil {
						if cc.IsInvoke() && x.isNoopInvoke(cc) {
							continue
						}
						if cc.IsInvoke() {
							if ic := x.ifaceContract(cc); ic != nil && !hasEverything(ic) {
								for _, k := range x.modKeysOfContract(ic, cc) {
									addKey(k, "")
								}
								continue
							}
						}
						if !cc.IsInvoke() {
							if ft := x.functypeContract(cc); ft != nil && !hasEverything(ft) {
								var objOf func(string) string
								if top {
									// an argument that names the same object in every iteration is havocked alone
									objOf = func(prm string) string {
										for i, n := range ft.ParamNames {
											if n == prm && i < len(cc.Args) {
												if v, ok := invariantVal(cc.Args[i]); ok && v.K == KScalar {
													return v.S
												}
											}
										}
										return ""
									}
								}
								for _, ko := range x.modObjKeysOfContract(ft, cc, objOf) {
									addKey(ko[0], ko[1])
								}
								continue
							}
						}
						all = true
						continue
					}
					name := callee.String()
					if ec := x.e.cs.Externs[name]; ec != nil {
						if hasEverything(ec) {
							all = true
						} else {
							for _, k := range x.modKeysOfContract(ec, cc) {
								addKey(k, "")
							}
						}
						continue
					}
					if m := lookupModel(name); m != nil {
						if m.locks {
							// lock acquisition havocs guarded state
							for _, k := range x.lockKeysForCall(p, fr, cc) {
								addKey(k, "")
							}
						}
						continue
					}
					if fc := x.e.contractOf(callee); fc != nil {
						if hasEverything(fc) {
							allStrong = true
							all = true
							continue
						}
						if hasExternal(fc) {
							all = true
						}
						var objOf func(string) string
						if top && fc.Kind == "func" {
							// arguments that are loop-invariant (defined before the loop, or loaded inside it through immutable
							// fields of such values) name the same object in every iteration
							objOf = func(prm string) string {
								for i, pr := range callee.Params {
									if pr.Name() == prm && i < len(cc.Args) {
										if v, ok := invariantVal(cc.Args[i]); ok && v.K == KScalar {
											return v.S
										}
									}
								}
								return ""
							}
						}
						for _, ko := range x.modObjKeysOfContract(fc, cc, objOf) {
							addKey(ko[0], ko[1])
						}
						continue
					}
					if x.inlinable(callee) && !seen[callee] {
						seen[callee] = true
						scan(callee, nil, false)
						continue
					}
					if x.isPureExternal(callee) {
						continue
					}
					all = true
				}
			}
		}
	}
	scan(fr.fn, l.Body, true)
	// maps updated in the loop: a map that is the same object in every iteration (defined before the loop, or loaded
	// through fields the loop does not write) is havocked alone
	var unwritten func(v ssa.Value) (Val, bool)
	unwritten = func(v ssa.Value) (Val, bool) {
		if defined(v) {
			return x.val(p, v), true
		}
		if u, ok := v.(*ssa.UnOp); ok && u.Op == token.MUL {
			if fa, ok := u.X.(*ssa.FieldAddr); ok {
				st := structOf(fa.X.Type())
				f := st.Field(fa.Field)
				tkey := typeKey(fa.X.Type())
				_, written := targets[fieldKey(tkey, f.Name(), "")]
				if x.e.isImmutableField(tkey, f.Name()) || (!all && !written) {
					if bv, ok := unwritten(fa.X); ok && bv.K == KScalar {
						return x.e.loadField(p, nil, bv.S, tkey, f.Name(), f.Type()), true
					}
				}
			}
		}
		return Val{}, false
	}
	for _, d := range deferredMaps {
		if v, ok := unwritten(d.v); ok && v.K == KScalar {
			mapKeysObj(d.mt, v.S)
		} else {
			mapKeys(d.mt)
		}
	}
	for _, d := range deferred {
		st := structOf(d.fa.X.Type())
		f := st.Field(d.fa.Field)
		tkey := typeKey(d.fa.X.Type())
		obj := ""
		if _, modified := targets[fieldKey(tkey, f.Name(), ".arr")]; !modified {
			bv := x.val(p, d.fa.X)
			if bv.K == KScalar {
				obj = x.e.loadField(p, nil, bv.S, tkey, f.Name(), f.Type()).S
			}
		}
		for _, lf := range x.e.leaves(d.et) {
			x.e.keySort[elemKey(d.et, lf.Path)] = arrSort("Int", arrSort("Int", lf.Sort))
			addKey(elemKey(d.et, lf.Path), obj)
		}
	}
	if allStrong {
		x.e.havocAll(p)
	} else if all {
		x.havocEverything(p)
	}
	if !allStrong {
		keys := make([]string, 0, len(targets))
		for k := range targets {
			keys = append(keys, k)
		}
		sort.Strings(keys)
		for _, k := range keys {
			objs := targets[k]
			if len(objs) == 1 && objs[0] == "" {
				x.e.heapHavoc(p, k)
				continue
			}
			srt := x.e.keySort[k]
			cur := x.e.heapName(p, nil, k, srt)
			inner := innerSort(srt)
			term := cur
			done := map[string]bool{}
			for _, o := range objs {
				if done[o] {
					continue
				}
				done[o] = true
				term = store(term, o, x.e.fresh("lh", inner))
			}
			x.e.heapSet(p, k, srt, term)
		}
	}
	for c := range cells {
		if v, ok := p.cells[c]; ok {
			if v.K == KGhostMap {
				nv := v
				nv.S = x.e.fresh("visited", arrSort(v.GK, "Bool"))
				p.cells[c] = nv
			} else {
				p.cells[c] = x.e.freshVal(p, v.T, "cell")
			}
		}
	}
}

func innerSort(arr string) string {
	// "(Array Int X)" -> X
	s := strings.TrimPrefix(arr, "(Array Int ")
	return strings.TrimSuffix(s, ")")
}

func hasEverything(fc *FuncContract) bool {
	for _, m := range fc.Modifies {
		if m == "everything" {
			return true
		}
	}
	return false
}

// hasExternal: `modifies external, T...`: the function calls arbitrary code (everything not protected by a lock the
// caller holds may change) and itself writes only the listed targets of the protected state.
func hasExternal(fc *FuncContract) bool {
	for _, m := range fc.Modifies {
		if m == "external" {
			return true
		}
	}
	return false
}

// modKeysOfContract: heap keys (whole) a contract's modifies clause may touch, conservatively.
func (x *Exec) modKeysOfContract(fc *FuncContract, cc *ssa.CallCommon) []string {
	var out []string
	for _, ko := range x.modObjKeysOfContract(fc, cc, nil) {
		out = append(out, ko[0])
	}
	return out
}

// modObjKeysOfContract: like modKeysOfContract, but a target `prm.f` / `prm.f[i]` whose base is a parameter with a
// known object term (objOf) is reported with that object ({key, obj}); obj "" = the whole key.
func (x *Exec) modObjKeysOfContract(fc *FuncContract, cc *ssa.CallCommon, objOf func(param string) string) [][2]string {
	var out [][2]string
	curObj := ""
	// resolve statically: need the types of the parameters
	fn := x.e.funcs[fc.Pkg+"."+fc.Name]
	ptypes := map[string]types.Type{}
	if fn != nil && fc.Kind == "func" {
		for _, prm := range fn.Params {
			ptypes[prm.Name()] = prm.Type()
		}
		for was, now := range x.e.renamesOf(fn) {
			if t, ok := ptypes[now]; ok && ptypes[was] == nil {
				ptypes[was] = t
			}
		}
	} else if cc != nil {
		var ats []types.Type
		if cc.IsInvoke() {
			ats = append(ats, cc.Value.Type())
		}
		for _, a := range cc.Args {
			ats = append(ats, a.Type())
		}
		for i, n := range fc.ParamNames {
			if i < len(ats) {
				ptypes[n] = ats[i]
			}
		}
	}
	add := func(k string, srt string) {
		x.e.keySort[k] = srt
		out = append(out, [2]string{k, curObj})
	}
	baseObj := func(e Expr) string {
		if id, ok := e.(*EIdent); ok && objOf != nil && ptypes[id.Name] != nil {
			if _, isPtr := ptypes[id.Name].Underlying().(*types.Pointer); isPtr {
				return objOf(id.Name)
			}
		}
		return ""
	}
	var typeOfExpr func(e Expr) types.Type
	typeOfExpr = func(e Expr) types.Type {
		switch e := e.(type) {
		case *EIdent:
			return ptypes[e.Name]
		case *ESel:
			t := typeOfExpr(e.X)
			if t == nil {
				return nil
			}
			st := structOf(t)
			if st == nil {
				return nil
			}
			for i := 0; i < st.NumFields(); i++ {
				if st.Field(i).Name() == e.F {
					return st.Field(i).Type()
				}
			}
		case *EIndex:
			t := typeOfExpr(e.X)
			if t == nil {
				return nil
			}
			switch u := t.Underlying().(type) {
			case *types.Slice:
				return u.Elem()
			case *types.Map:
				return u.Elem()
			}
		}
		return nil
	}
	fieldKeys := func(bt types.Type, f string) {
		if bt == nil {
			return
		}
		tkey := typeKey(bt)
		if tc := x.e.cs.Types[tkey]; tc != nil {
			if g := tc.Ghost[f]; g != nil {
				ks, vs, isMap := ghostSorts(x.e, g.Type)
				if isMap {
					add(fieldKey(tkey, f, ""), arrSort("Int", arrSort(ks, vs)))
				} else {
					add(fieldKey(tkey, f, ""), arrSort("Int", vs))
				}
				return
			}
		}
		st := structOf(bt)
		if st == nil {
			return
		}
		for i := 0; i < st.NumFields(); i++ {
			if st.Field(i).Name() == f {
				for _, lf := range x.e.leaves(st.Field(i).Type()) {
					add(fieldKey(tkey, f, lf.Path), arrSort("Int", lf.Sort))
				}
			}
		}
	}
	contentKeys := func(t types.Type) {
		if t == nil {
			return
		}
		switch u := t.Underlying().(type) {
		case *types.Map:
			ks := x.e.sortOf(u.Key())
			for _, lf := range x.e.leaves(u.Elem()) {
				add("M:"+mapKeyBase(t)+lf.Path, arrSort("Int", arrSort(ks, lf.Sort)))
			}
			add("MD:"+mapKeyBase(t), arrSort("Int", arrSort(ks, "Bool")))
			add("ML:"+mapKeyBase(t), arrSort("Int", "Int"))
		case *types.Slice:
			for _, lf := range x.e.leaves(u.Elem()) {
				add(elemKey(u.Elem(), lf.Path), arrSort("Int", arrSort("Int", lf.Sort)))
			}
		}
	}
	for _, m := range fc.Modifies {
		if m == "nothing" || m == "everything" || m == "external" {
			continue
		}
		e, err := ParseExpr(m)
		if err != nil {
			continue
		}
		switch e := e.(type) {
		case *ESel:
			if id, ok := e.X.(*EIdent); ok && ptypes[id.Name] == nil {
				// T.f
				d := &EvalCtx{x: x, pkg: fc.Pkg}
				if t := d.resolveType(id.Name); t != nil {
					fieldKeys(t, e.F)
				}
				continue
			}
			if q, ok := e.X.(*ESel); ok {
				if id, ok := q.X.(*EIdent); ok && ptypes[id.Name] == nil {
					// pkg.T.f: whole field of a type of another package
					d := &EvalCtx{x: x, pkg: fc.Pkg}
					if t := d.resolveType(id.Name + "." + q.F); t != nil {
						fieldKeys(t, e.F)
						continue
					}
				}
			}
			curObj = baseObj(e.X)
			fieldKeys(typeOfExpr(e.X), e.F)
			curObj = ""
		case *EIndex:
			if s, ok := e.X.(*ESel); ok {
				bt := typeOfExpr(s.X)
				if bt != nil {
					tkey := typeKey(bt)
					if tc := x.e.cs.Types[tkey]; tc != nil && tc.Ghost[s.F] != nil {
						curObj = baseObj(s.X)
						fieldKeys(bt, s.F)
						curObj = ""
						continue
					}
				}
			}
			contentKeys(typeOfExpr(e.X))
		case *ECall:
			if (e.Fn == "elems" || e.Fn == "mapof") && len(e.Args) == 1 {
				contentKeys(typeOfExpr(e.Args[0]))
			}
		}
	}
	if fc.Atomic != "" {
		if e, err := ParseExpr(fc.Atomic); err == nil {
			if s, ok := e.(*ESel); ok {
				if bt := typeOfExpr(s.X); bt != nil {
					for _, k := range x.guardedKeys(typeKey(bt), s.F) {
						out = append(out, [2]string{k, ""})
					}
				}
			}
		}
	}
	return out
}

// ---- instruction execution -------------------------------------------------

func (x *Exec) execFrom(p *Path, b *ssa.BasicBlock, i int, k *Cont) {
	for ; i < len(b.Instrs); i++ {
		if p.dead {
			return
		}
		in := b.Instrs[i]
		switch in := in.(type) {
		case *ssa.Phi, *ssa.DebugRef:
			if d, ok := in.(*ssa.DebugRef); ok {
				x.debugRef(p, d)
			}
		case *ssa.Call:
			next := i + 1
			x.doCall(p, in, &in.Call, func(p *Path, res Val) {
				p.top().env[in] = res
				x.execFrom(p, b, next, k)
			}, func(p *Path) { x.raise(p, k) })
			return
		case *ssa.Defer:
			fr := p.top()
			d := deferRec{call: &in.Call, site: in}
			for _, a := range in.Call.Args {
				d.args = append(d.args, x.val(p, a))
			}
			if !in.Call.IsInvoke() {
				if _, isB := in.Call.Value.(*ssa.Builtin); !isB && in.Call.StaticCallee() == nil {
					d.fnv = x.val(p, in.Call.Value)
				} else if mc, ok := in.Call.Value.(*ssa.MakeClosure); ok {
					d.fnv = x.val(p, mc)
				}
			} else {
				d.fnv = x.val(p, in.Call.Value)
			}
			fr.defers = append(fr.defers, d)
		case *ssa.Go:
			key := x.callKey(p, &in.Call)
			if mc, ok := in.Call.Value.(*ssa.MakeClosure); ok {
				key = mc.Fn.(*ssa.Function).Name()
			} else if f := in.Call.StaticCallee(); f != nil {
				key = f.Name()
			}
			p.events = append(p.events, Event{Key: "go:" + key})
		case *ssa.RunDefers:
			next := i + 1
			x.atExit(p, b, i)
			x.runDefers(p, func(p *Path) { x.execFrom(p, b, next, k) }, k)
			return
		case *ssa.If:
			c := x.val(p, in.Cond)
			tb, fb := b.Succs[0], b.Succs[1]
			if c.S == "true" {
				x.enterBlock(p, tb, b, k)
				return
			}
			if c.S == "false" {
				x.enterBlock(p, fb, b, k)
				return
			}
			if x.npaths >= x.maxPaths {
				x.errorf("path limit exceeded in %s", x.fn)
				return
			}
			nc := not(c.S)
			hasT, hasF := false, false
			for _, a := range p.assumes {
				if a == c.S {
					hasT = true
				}
				if a == nc {
					hasF = true
				}
			}
			if hasT && !hasF {
				x.enterBlock(p, tb, b, k)
				return
			}
			if hasF && !hasT {
				x.enterBlock(p, fb, b, k)
				return
			}
			x.npaths++
			q := p.clone(x.npaths)
			p.assume(c.S)
			q.assume(nc)
			x.enterBlock(p, tb, b, k)
			x.enterBlock(q, fb, b, k)
			return
		case *ssa.Jump:
			x.enterBlock(p, b.Succs[0], b, k)
			return
		case *ssa.Return:
			if len(p.top().defers) == 0 || !hasRunDefers(b) {
				x.atExit(p, b, i)
			}
			var res []Val
			for _, r := range in.Results {
				res = append(res, x.val(p, r))
			}
			k.ret(p, res)
			return
		case *ssa.Panic:
			fc := x.fc
			if p.top().depth > 0 {
				fc = x.e.contractOf(p.top().fn)
			}
			if fc == nil || !fc.MayPanic {
				x.oblige(p, "safety", "explicit_panic_unreachable", "false", nil, "panic statement must be unreachable")
			}
			x.raise(p, k)
			return
		default:
			x.step(p, in)
		}
	}
}

func hasRunDefers(b *ssa.BasicBlock) bool {
	for _, in := range b.Instrs {
		if _, ok := in.(*ssa.RunDefers); ok {
			return true
		}
	}
	return false
}

func (x *Exec) debugRef(p *Path, d *ssa.DebugRef) {
	fr := p.top()
	obj := d.Object()
	if obj == nil {
		return
	}
	if vv, ok := obj.(*types.Var); !ok || vv.IsField() {
		// a selector expression x.f refers to the field f, not to a local variable of that name
		return
	}
	v, ok := fr.env[d.X]
	if !ok {
		switch d.X.(type) {
		case *ssa.Const, *ssa.Global:
			v = x.val(p, d.X)
		default:
			return
		}
	}
	if d.IsAddr {
		if v.K == KAddr && (v.A.Kind == ALocal) {
			fr.names[obj.Name()] = v
		}
		return
	}
	fr.names[obj.Name()] = v
}

// val returns the symbolic value of an SSA value in the current frame.
func (x *Exec) val(p *Path, v ssa.Value) Val {
	fr := p.top()
	switch v := v.(type) {
	case *ssa.Const:
		return x.e.constVal(v)
	case *ssa.Global:
		return Val{K: KAddr, T: v.Type(), A: &Addr{Kind: AGlobal, Cell: "G:" + v.Pkg.Pkg.Path() + "." + v.Name(), ET: v.Type().(*types.Pointer).Elem(), Label: v.Name()}}
	case *ssa.Function:
		return Val{K: KFunc, T: v.Type(), S: x.funcID(v), Fn: v}
	case *ssa.Builtin:
		return Val{K: KFunc, T: v.Type(), S: "0"}
	}
	if r, ok := fr.env[v]; ok {
		return r
	}
	x.errorf("%s: value %s (%T) not available", fr.fn, v.Name(), v)
	p.dead = true
	return x.e.freshVal(p, v.Type(), "undef")
}

func (x *Exec) funcID(f *ssa.Function) string {
	return x.e.typeID(types.NewNamed(types.NewTypeName(token.NoPos, nil, "func:"+f.String(), nil), types.Typ[types.Int], nil))
}

func (x *Exec) cellName(fr *FrameState, a *ssa.Alloc) string {
	return fmt.Sprintf("a:%d:%s", fr.id, a.Name())
}

func (x *Exec) iterCell(fr *FrameState, it ssa.Value) string {
	return fmt.Sprintf("iter:%d:%s", fr.id, it.Name())
}

// load reads through an address in the given state.
func (x *Exec) load(p *Path, snap *Snap, a *Addr) Val {
	switch a.Kind {
	case AField:
		v := x.e.loadField(p, snap, a.Obj, a.TKey, a.Field, a.ET)
		v.Label = a.Label
		return v
	case AElem:
		v := x.e.loadElem(p, snap, a.Obj, a.Idx, a.ET)
		v.Label = a.Label
		return v
	case ALocal:
		v, ok := p.cells[a.Cell]
		if !ok {
			v = x.e.zeroVal(a.ET)
		}
		return v
	case AGlobal:
		var ts []string
		for _, l := range x.e.leaves(a.ET) {
			ts = append(ts, x.e.heapName(p, snap, a.Cell+l.Path, l.Sort))
		}
		v := x.e.unflatten(a.ET, &ts)
		v.Label = a.Label
		if v.K == KSlice {
			v.Off = "0" // slices held in package variables start at offset 0 of their backing array (checked on store)
		}
		if snap == nil {
			x.globalInv(p, strings.TrimPrefix(a.Cell, "G:"), false)
		}
		if x.e.globalsRO[strings.TrimPrefix(a.Cell, "G:")] && v.K == KIface {
			// read-only error values (errors.New at init) are non-nil
			if types.TypeString(a.ET, nil) == "error" {
				p.assume("(> " + v.Tag + " 0)")
				x.e.note("package-level error values are non-nil")
			}
		}
		if v.K == KScalar {
			if _, ok := a.ET.Underlying().(*types.Pointer); ok && x.e.globalsRO[strings.TrimPrefix(a.Cell, "G:")] {
				p.assume("(> " + v.S + " 0)")
			}
		}
		return v
	}
	panic("load: bad address")
}

func (x *Exec) storeTo(p *Path, a *Addr, v Val) {
	switch a.Kind {
	case AField:
		x.e.storeField(p, a.Obj, a.TKey, a.Field, a.ET, v)
	case AElem:
		x.e.storeElem(p, a.Obj, a.Idx, a.ET, v)
	case ALocal:
		p.cells[a.Cell] = v
	case AGlobal:
		if v.K == KSlice {
			x.oblige(p, "model", "global_slice_offset0", eq(v.Off, "0"), nil, "heap model: a slice stored in a package variable starts at offset 0 of its backing array")
		}
		ts := x.e.flatten(v)
		for i, l := range x.e.leaves(a.ET) {
			x.e.heapSet(p, a.Cell+l.Path, l.Sort, ts[i])
		}
		x.globalInv(p, strings.TrimPrefix(a.Cell, "G:"), true)
	}
}

// globalInv assumes (on load) or checks (after a store) the declared invariants of a package-level variable.
func (x *Exec) globalInv(p *Path, name string, check bool) {
	cls := x.e.cs.GlobalInv[name]
	if len(cls) == 0 || x.inGlobalInv {
		return
	}
	x.inGlobalInv = true
	defer func() { x.inGlobalInv = false }()
	i := strings.LastIndex(name, ".")
	ctx := &EvalCtx{x: x, p: p, pkg: name[:i]}
	for _, c := range cls {
		s, err := ctx.EvalBool(c.E)
		if err != nil {
			x.errorf("%s:%d: globalinv: %v", c.File, c.Line, err)
			continue
		}
		if check {
			x.oblige(p, "globalinv", c.Label, s, c.Props, c.Src)
		} else {
			x.assumeOnce(p, s)
		}
	}
}

// subObj is the reference of a struct embedded by value in field f of obj.
func (x *Exec) subObj(obj, tkey, field string) string {
	fn := "sub_" + strings.NewReplacer("/", "_", ".", "_", "*", "p", "-", "_").Replace(shortTypeKey(tkey)+"_"+field)
	x.e.ufun(fn, "(Int) Int")
	return "(" + fn + " " + obj + ")"
}

func (x *Exec) checkNonNil(p *Path, term string, what string) {
	if p.nonnil[term] {
		return
	}
	p.nonnil[term] = true
	if isNonNegLit(term) && term != "0" {
		return
	}
	x.oblige(p, "safety", "nil_deref", "(not (= "+term+" 0))", nil, "nil dereference of "+what)
	p.assume("(not (= " + term + " 0))")
}

func (x *Exec) step(p *Path, in ssa.Instruction) {
	fr := p.top()
	e := x.e
	set := func(v ssa.Value, r Val) { fr.env[v] = r }
	switch in := in.(type) {
	case *ssa.Alloc:
		et := in.Type().(*types.Pointer).Elem()
		if st, ok := et.Underlying().(*types.Struct); ok && !isTimeType(et) {
			r := e.alloc(p, in.Name())
			p.nonnil[r] = true
			tkey := typeKey(et)
			if p.private == nil {
				p.private = map[string]string{}
			}
			p.private[r] = tkey
			for i := 0; i < st.NumFields(); i++ {
				f := st.Field(i)
				if _, isStruct := f.Type().Underlying().(*types.Struct); isStruct && !isTimeType(f.Type()) {
					continue
				}
				e.storeField(p, r, tkey, f.Name(), f.Type(), e.zeroVal(f.Type()))
			}
			v := scalar(in.Type(), r)
			v.Label = in.Comment
			set(in, v)
			return
		}
		if ar, ok := et.Underlying().(*types.Array); ok {
			r := e.alloc(p, in.Name())
			p.nonnil[r] = true
			v := scalar(in.Type(), r)
			_ = ar
			set(in, v)
			return
		}
		if _, named := types.Unalias(et).(*types.Named); named && in.Heap {
			if _, isSlice := et.Underlying().(*types.Slice); isSlice {
				// &T{} of a named slice type that escapes (collections.pqImpl): a heap box, see boxField
				r := e.alloc(p, in.Name())
				p.nonnil[r] = true
				e.storeField(p, r, typeKey(et), boxField, et, e.zeroVal(et))
				v := scalar(in.Type(), r)
				v.Label = in.Comment
				set(in, v)
				return
			}
		}
		cell := x.cellName(fr, in)
		p.cells[cell] = e.zeroVal(et)
		set(in, Val{K: KAddr, T: in.Type(), A: &Addr{Kind: ALocal, Cell: cell, ET: et, Label: in.Comment}})
	case *ssa.FieldAddr:
		ov := x.val(p, in.X)
		st := structOf(in.X.Type())
		f := st.Field(in.Field)
		tkey := typeKey(in.X.Type())
		if ov.K != KScalar {
			x.errorf("FieldAddr on non-reference in %s", fr.fn)
			p.dead = true
			return
		}
		x.checkNonNil(p, ov.S, in.X.Name())
		lbl := ""
		if ov.Label != "" {
			lbl = ov.Label + "." + f.Name()
		}
		if _, isStruct := f.Type().Underlying().(*types.Struct); isStruct && !isTimeType(f.Type()) && !isMutexType(f.Type()) {
			v := scalar(in.Type(), x.subObj(ov.S, tkey, f.Name()))
			v.Label = lbl
			p.nonnil[v.S] = true
			set(in, v)
			return
		}
		set(in, Val{K: KAddr, T: in.Type(), A: &Addr{Kind: AField, Obj: ov.S, TKey: tkey, Field: f.Name(), ET: f.Type(), Label: lbl, Via: ov.Own}})
	case *ssa.Field:
		sv := x.val(p, in.X)
		if sv.K != KStruct {
			x.errorf("Field on non-struct value in %s", fr.fn)
			p.dead = true
			return
		}
		set(in, sv.Fs[in.Field])
	case *ssa.IndexAddr:
		xv := x.val(p, in.X)
		iv := x.val(p, in.Index)
		var et types.Type
		var arr, off, ln string
		switch u := in.X.Type().Underlying().(type) {
		case *types.Slice:
			et = u.Elem()
			arr, off, ln = xv.S, xv.Off, xv.Len
		case *types.Pointer:
			ar := u.Elem().Underlying().(*types.Array)
			et = ar.Elem()
			arr, off, ln = xv.S, "0", fmt.Sprint(ar.Len())
			x.checkNonNil(p, xv.S, in.X.Name())
		}
		if !(isNonNegLit(iv.S) && isNonNegLit(ln) && atoi(iv.S) < atoi(ln)) {
			x.oblige(p, "safety", "index_in_range", "(and (>= "+iv.S+" 0) (< "+iv.S+" "+ln+"))", nil, "index out of range")
			p.assume("(and (>= " + iv.S + " 0) (< " + iv.S + " " + ln + "))")
		}
		idx := iv.S
		if off != "0" {
			idx = "(+ " + off + " " + iv.S + ")"
		}
		if _, isStruct := et.Underlying().(*types.Struct); isStruct && !isTimeType(et) {
			fn := "elemref"
			e.ufun(fn, "(Int Int) Int")
			v := scalar(in.Type(), "("+fn+" "+arr+" "+idx+")")
			p.nonnil[v.S] = true
			set(in, v)
			return
		}
		set(in, Val{K: KAddr, T: in.Type(), A: &Addr{Kind: AElem, Obj: arr, Idx: idx, ET: et}})
	case *ssa.UnOp:
		xv := x.val(p, in.X)
		switch in.Op {
		case token.MUL:
			if xv.K == KAddr {
				x.guardCheck(p, xv.A, false, in)
				v := x.load(p, nil, xv.A)
				if v.T == nil {
					v.T = in.Type()
				}
				e.assumeRange(p, v)
				set(in, v)
				return
			}
			// pointer to struct: load the whole struct value
			if st := structOf(in.X.Type()); st != nil && xv.K == KScalar && !isTimeType(in.Type()) {
				x.checkNonNil(p, xv.S, in.X.Name())
				tkey := typeKey(in.X.Type())
				if holdsMutexByValue(st, 0) && !x.isFreshObj(p, xv.S) {
					// copying a struct copies its mutex: the copy's lock excludes nobody (a value receiver, *p assigned
					// to a variable, ...)
					x.oblige(p, "lock", "mutex_copied", "false", []string{"C09"}, "a "+shortTypeKey(tkey)+" is copied by value together with the mutex it holds: locking the copy excludes no other goroutine")
				}
				sv := Val{K: KStruct, T: in.Type()}
				for i := 0; i < st.NumFields(); i++ {
					f := st.Field(i)
					sv.Fs = append(sv.Fs, e.loadField(p, nil, xv.S, tkey, f.Name(), f.Type()))
				}
				set(in, sv)
				return
			}
			if et := boxElem(in.X.Type()); et != nil && xv.K == KScalar {
				// pointer to a non-struct value held in the heap (e.g. *pqImpl): one pseudo field per pointee type
				x.checkNonNil(p, xv.S, in.X.Name())
				v := e.loadField(p, nil, xv.S, typeKey(in.X.Type()), boxField, et)
				if v.T == nil {
					v.T = in.Type()
				}
				e.assumeRange(p, v)
				set(in, v)
				return
			}
			// pointer to a scalar we do not track
			v := e.freshVal(p, in.Type(), "deref")
			set(in, v)
			e.note("load through untracked pointer in " + fr.fn.String())
		case token.NOT:
			set(in, scalar(in.Type(), not(xv.S)))
		case token.SUB:
			if e.sortOf(in.Type()) == "Real" {
				set(in, scalar(in.Type(), "(- "+xv.S+")"))
			} else {
				set(in, scalar(in.Type(), "(- "+xv.S+")"))
			}
		case token.XOR:
			e.ufun("bitnot", "(Int) Int")
			set(in, scalar(in.Type(), "(bitnot "+xv.S+")"))
		case token.ARROW:
			set(in, e.freshVal(p, in.Type(), "recv"))
			e.note("channel receive treated as unknown value")
		default:
			x.errorf("unsupported unary op %s", in.Op)
			p.dead = true
		}
	case *ssa.Store:
		av := x.val(p, in.Addr)
		vv := x.val(p, in.Val)
		if av.K != KAddr {
			// store of a whole struct through a pointer: *t = structval
			if st := structOf(in.Addr.Type()); st != nil && av.K == KScalar && vv.K == KStruct {
				x.checkNonNil(p, av.S, in.Addr.Name())
				tkey := typeKey(in.Addr.Type())
				for i := 0; i < st.NumFields(); i++ {
					f := st.Field(i)
					if _, isStruct := f.Type().Underlying().(*types.Struct); isStruct && !isTimeType(f.Type()) {
						continue
					}
					e.storeField(p, av.S, tkey, f.Name(), f.Type(), vv.Fs[i])
				}
				return
			}
			if et := boxElem(in.Addr.Type()); et != nil && av.K == KScalar {
				x.checkNonNil(p, av.S, in.Addr.Name())
				if vv.K == KSlice && vv.Off != "0" {
					x.oblige(p, "model", "field_slice_offset0", eq(vv.Off, "0"), nil, "heap model: a slice stored behind a pointer starts at offset 0 of its backing array")
				}
				e.storeField(p, av.S, typeKey(in.Addr.Type()), boxField, et, vv)
				return
			}
			e.note("store through untracked pointer in " + fr.fn.String())
			return
		}
		x.guardCheck(p, av.A, true, in)
		x.escapeOnStore(p, av.A, vv)
		if vv.K == KSlice && av.A.Kind == AField && vv.Off != "0" {
			x.oblige(p, "model", "field_slice_offset0", eq(vv.Off, "0"), nil, "heap model: a slice stored in a struct field starts at offset 0 of its backing array")
		}
		if vv.K == KAddr && vv.A.Kind == ALocal {
			p.escaped[vv.A.Cell] = true
		}
		if av.A.Kind == AElem && vv.K == KIface && vv.DynT != nil && e.allocated[av.A.Obj] {
			p.elemStores[av.A.Obj] = append(append([]Val(nil), p.elemStores[av.A.Obj]...), vv)
		}
		x.storeTo(p, av.A, vv)
	case *ssa.BinOp:
		set(in, x.binop(p, in))
	case *ssa.Convert:
		set(in, x.convert(p, in))
	case *ssa.ChangeType:
		v := x.val(p, in.X)
		v.T = in.Type()
		set(in, v)
	case *ssa.ChangeInterface:
		v := x.val(p, in.X)
		v.T = in.Type()
		set(in, v)
	case *ssa.MakeInterface:
		xv := x.val(p, in.X)
		r := Val{K: KIface, T: in.Type(), Tag: e.typeID(in.X.Type()), Label: xv.Label, DynT: in.X.Type()}
		switch xv.K {
		case KScalar:
			switch e.sortOf(in.X.Type()) {
			case "Int":
				r.S = xv.S
				if _, isPtr := in.X.Type().Underlying().(*types.Pointer); !isPtr {
					// boxed integers: payload is the integer itself (may be negative: no range assumption on payload use)
					e.ufun("box_int", "(Int) Int")
					r.S = "(box_int " + xv.S + ")"
				}
			case "Str", "String":
				e.ufun("box_str", "("+e.strSort()+") Int")
				r.S = "(box_str " + xv.S + ")"
			case "Bool":
				r.S = ite(xv.S, "1", "0")
			default:
				r.S = e.fresh("box", "Int")
			}
		case KFunc:
			r.S = xv.S
			r.Fn = xv.Fn
			r.Binds = xv.Binds
		default:
			r.S = e.fresh("box", "Int")
		}
		set(in, r)
	case *ssa.TypeAssert:
		xv := x.val(p, in.X)
		if xv.K != KIface {
			x.errorf("TypeAssert on non-interface in %s", fr.fn)
			p.dead = true
			return
		}
		var ok string
		var res Val
		if types.IsInterface(in.AssertedType) {
			fn := implFun(in.AssertedType)
			e.ufun(fn, "(Int) Bool")
			ok = "(" + fn + " " + xv.Tag + ")"
			p.assume("(=> " + ok + " (> " + xv.Tag + " 0))")
			if ai, isI := in.AssertedType.Underlying().(*types.Interface); isI && types.IsInterface(in.X.Type()) && types.Implements(in.X.Type(), ai) {
				// the static interface type already includes the asserted methods: succeeds iff non-nil
				p.assume("(=> (> " + xv.Tag + " 0) " + ok + ")")
			}
			res = Val{K: KIface, T: in.AssertedType, Tag: xv.Tag, S: xv.S, Label: xv.Label}
		} else {
			ok = eq(xv.Tag, e.typeID(in.AssertedType))
			switch kindOf(in.AssertedType) {
			case KScalar:
				switch e.sortOf(in.AssertedType) {
				case "Int":
					res = scalar(in.AssertedType, xv.S)
					if _, isPtr := in.AssertedType.Underlying().(*types.Pointer); !isPtr {
						if _, isMap := in.AssertedType.Underlying().(*types.Map); !isMap {
							e.ufun("unbox_int", "(Int) Int")
							res = scalar(in.AssertedType, "(unbox_int "+xv.S+")")
						}
					}
				case "Str", "String":
					e.ufun("unbox_str", "(Int) "+e.strSort())
					res = scalar(in.AssertedType, "(unbox_str "+xv.S+")")
				default:
					res = e.freshVal(p, in.AssertedType, "unbox")
				}
			default:
				res = e.freshVal(p, in.AssertedType, "unbox")
			}
			res.Label = xv.Label
		}
		if in.CommaOk {
			// when the assertion fails the value is the zero value
			set(in, Val{K: KTuple, T: in.Type(), Fs: []Val{res, scalar(types.Typ[types.Bool], ok)}})
		} else {
			x.oblige(p, "safety", "type_assert", ok, nil, "type assertion may fail")
			p.assume(ok)
			set(in, res)
		}
	case *ssa.Extract:
		tv := x.val(p, in.Tuple)
		if tv.K != KTuple || in.Index >= len(tv.Fs) {
			x.errorf("Extract on non-tuple in %s", fr.fn)
			p.dead = true
			return
		}
		set(in, tv.Fs[in.Index])
	case *ssa.MakeMap:
		r := e.alloc(p, in.Name())
		mt := in.Type()
		mm := mt.Underlying().(*types.Map)
		ks := e.sortOf(mm.Key())
		dk := "MD:" + mapKeyBase(mt)
		dsrt := arrSort("Int", arrSort(ks, "Bool"))
		d := e.heapName(p, nil, dk, dsrt)
		e.heapSet(p, dk, dsrt, store(d, r, "((as const "+arrSort(ks, "Bool")+") false)"))
		lk := "ML:" + mapKeyBase(mt)
		la := e.heapName(p, nil, lk, arrSort("Int", "Int"))
		e.heapSet(p, lk, arrSort("Int", "Int"), store(la, r, "0"))
		p.nonnil[r] = true
		set(in, scalar(mt, r))
	case *ssa.MakeSlice:
		r := e.alloc(p, in.Name())
		ln := x.val(p, in.Len)
		et := in.Type().Underlying().(*types.Slice).Elem()
		for _, l := range e.leaves(et) {
			k := elemKey(et, l.Path)
			srt := arrSort("Int", arrSort("Int", l.Sort))
			a := e.heapName(p, nil, k, srt)
			e.heapSet(p, k, srt, store(a, r, "((as const "+arrSort("Int", l.Sort)+") "+zeroOfSort(l.Sort)+")"))
		}
		x.oblige(p, "safety", "makeslice_len", "(>= "+ln.S+" 0)", nil, "make with negative length")
		set(in, Val{K: KSlice, T: in.Type(), S: r, Off: "0", Len: ln.S})
	case *ssa.MakeClosure:
		fnv := in.Fn.(*ssa.Function)
		for _, b := range in.Bindings {
			if bv, ok := fr.env[b]; ok {
				x.escapeVal(p, bv)
			}
		}
		r := Val{K: KFunc, T: in.Type(), S: e.alloc(p, "closure"), Fn: fnv}
		// a closure that is only deferred / called directly by this function does not let its captured
		// variables escape to other code
		local := true
		if refs := in.Referrers(); refs != nil {
			for _, ref := range *refs {
				switch ref := ref.(type) {
				case *ssa.Defer:
					if ref.Call.Value != ssa.Value(in) {
						local = false
					}
				case *ssa.Call:
					if ref.Call.Value != ssa.Value(in) {
						local = false
					}
				case *ssa.DebugRef:
				default:
					local = false
				}
			}
		}
		for _, b := range in.Bindings {
			bv := x.val(p, b)
			if bv.K == KAddr && bv.A.Kind == ALocal && !local {
				p.escaped[bv.A.Cell] = true
			}
			r.Binds = append(r.Binds, bv)
		}
		set(in, r)
	case *ssa.Lookup:
		xv := x.val(p, in.X)
		iv := x.val(p, in.Index)
		if _, ok := in.X.Type().Underlying().(*types.Map); ok {
			v, dom := e.mapLoad(p, nil, in.X.Type(), xv.S, iv.S)
			if xv.Own != nil && v.Own == nil {
				v.Own = xv.Own
			}
			x.guardCheckMap(p, xv, false, in)
			e.assumeRange(p, v)
			if in.CommaOk {
				set(in, Val{K: KTuple, T: in.Type(), Fs: []Val{v, scalar(types.Typ[types.Bool], dom)}})
			} else {
				set(in, v)
			}
			return
		}
		// string indexing
		if e.stringMode {
			e.ufun("byte_at", "(String Int) Int")
		} else {
			e.ufun("byte_at", "(Str Int) Int")
		}
		set(in, scalar(in.Type(), "(byte_at "+xv.S+" "+iv.S+")"))
	case *ssa.MapUpdate:
		mv := x.val(p, in.Map)
		kv := x.val(p, in.Key)
		vv := x.val(p, in.Value)
		x.checkNonNil(p, mv.S, "map")
		x.guardCheckMap(p, mv, true, in)
		x.insertOnlyCheck(p, in.Map.Type(), mv, kv, &vv)
		e.mapStore(p, in.Map.Type(), mv.S, kv.S, vv)
	case *ssa.Slice:
		x.sliceOp(p, in)
	case *ssa.Range:
		xv := x.val(p, in.X)
		if mt, ok := in.X.Type().Underlying().(*types.Map); ok {
			cell := x.iterCell(fr, in)
			ks := e.sortOf(mt.Key())
			vis := e.fresh("visited", arrSort(ks, "Bool"))
			p.assume(eq(vis, "((as const "+arrSort(ks, "Bool")+") false)"))
			p.cells[cell] = Val{K: KGhostMap, S: vis, GK: ks, GV: "Bool", T: in.X.Type(), Label: xv.S}
			set(in, Val{K: KIter, T: in.X.Type(), S: xv.S, A: &Addr{Kind: ALocal, Cell: cell}, Own: xv.Own})
			return
		}
		x.errorf("range over %v unsupported in %s", in.X.Type(), fr.fn)
		p.dead = true
	case *ssa.Next:
		it := x.val(p, in.Iter)
		if it.K != KIter {
			x.errorf("Next on non-iterator in %s", fr.fn)
			p.dead = true
			return
		}
		mt := it.T
		mm := mt.Underlying().(*types.Map)
		vis := p.cells[it.A.Cell]
		ok := e.fresh("next_ok", "Bool")
		kv := e.freshVal(p, mm.Key(), "next_key")
		dom := e.mapDom(p, nil, mt, it.S)
		val, _ := e.mapLoadX(p, nil, mt, it.S, kv.S, true)
		if it.Own != nil {
			val.Own = it.Own
		}
		e.assumeRange(p, val)
		ksort := e.sortOf(mm.Key())
		// ok: k is a current key not yet visited; !ok: every current key has been visited
		p.assume("(=> " + ok + " (and " + sel(dom, kv.S) + " (not " + sel(vis.S, kv.S) + ")))")
		p.assume("(=> (not " + ok + ") (forall ((|q:k| " + ksort + ")) (=> " + sel(dom, "|q:k|") + " " + sel(vis.S, "|q:k|") + ")))")
		nv := vis
		nv.S = e.fresh("visited", arrSort(ksort, "Bool"))
		p.assume(eq(nv.S, ite(ok, store(vis.S, kv.S, "true"), vis.S)))
		p.cells[it.A.Cell] = nv
		set(in, Val{K: KTuple, T: in.Type(), Fs: []Val{scalar(types.Typ[types.Bool], ok), kv, val}})
	case *ssa.Index:
		set(in, e.freshVal(p, in.Type(), "index"))
		e.note("array indexing by value treated as unknown in " + fr.fn.String())
	case *ssa.MakeChan, *ssa.Select, *ssa.Send:
		if v, ok := in.(ssa.Value); ok {
			set(v, e.freshVal(p, v.Type(), "chan"))
		}
		e.note("channel operation not modelled in " + fr.fn.String())
	case *ssa.SliceToArrayPointer:
		set(in, e.freshVal(p, in.Type(), "s2a"))
	default:
		x.errorf("unsupported instruction %T in %s", in, fr.fn)
		p.dead = true
	}
}

func (x *Exec) sliceOp(p *Path, in *ssa.Slice) {
	e := x.e
	fr := p.top()
	xv := x.val(p, in.X)
	lo, hi := "0", ""
	if in.Low != nil {
		lo = x.val(p, in.Low).S
	}
	if in.High != nil {
		hi = x.val(p, in.High).S
	}
	switch u := in.X.Type().Underlying().(type) {
	case *types.Slice:
		if hi == "" {
			hi = xv.Len
		}
		// bounds: 0 <= lo <= hi <= cap; we use len as a lower bound of cap
		if !(lo == "0" && hi == xv.Len) {
			g := "(and (>= " + lo + " 0) (<= " + lo + " " + hi + ") (<= " + hi + " " + xv.Len + "))"
			x.oblige(p, "safety", "slice_bounds", g, nil, "slice bounds out of range")
			p.assume(g)
		}
		off := xv.Off
		if lo != "0" {
			off = "(+ " + xv.Off + " " + lo + ")"
		}
		ln := hi
		if lo != "0" {
			ln = "(- " + hi + " " + lo + ")"
		}
		fr.env[in] = Val{K: KSlice, T: in.Type(), S: xv.S, Off: off, Len: ln}
	case *types.Pointer:
		ar := u.Elem().Underlying().(*types.Array)
		if hi == "" {
			hi = fmt.Sprint(ar.Len())
		}
		ln := hi
		if lo != "0" {
			ln = "(- " + hi + " " + lo + ")"
		}
		fr.env[in] = Val{K: KSlice, T: in.Type(), S: xv.S, Off: lo, Len: ln}
	case *types.Basic: // string
		if e.stringMode {
			if hi == "" {
				hi = "(str.len " + xv.S + ")"
			}
			g := "(and (>= " + lo + " 0) (<= " + lo + " " + hi + ") (<= " + hi + " (str.len " + xv.S + ")))"
			x.oblige(p, "safety", "slice_bounds", g, nil, "string slice bounds out of range")
			p.assume(g)
			fr.env[in] = scalar(in.Type(), "(str.substr "+xv.S+" "+lo+" (- "+hi+" "+lo+"))")
		} else {
			fr.env[in] = e.freshVal(p, in.Type(), "substr")
		}
	default:
		x.errorf("unsupported slice operand %v", in.X.Type())
		p.dead = true
	}
}

func (x *Exec) binop(p *Path, in *ssa.BinOp) Val {
	e := x.e
	l, r := x.val(p, in.X), x.val(p, in.Y)
	t := in.Type()
	srt := e.sortOf(in.X.Type())
	switch in.Op {
	case token.EQL, token.NEQ:
		c := x.evalCtx(p, nil)
		var s string
		func() {
			defer func() {
				if rec := recover(); rec != nil {
					if _, ok := rec.(evalErr); ok {
						s = e.fresh("cmp", "Bool")
						return
					}
					panic(rec)
				}
			}()
			lv, rv := l, r
			// comparisons of addresses and other untracked things
			if lv.K == KAddr || rv.K == KAddr {
				s = e.fresh("cmp", "Bool")
				return
			}
			s = c.valEq(lv, rv)
		}()
		if in.Op == token.NEQ {
			s = not(s)
		}
		return scalar(t, s)
	case token.LSS, token.LEQ, token.GTR, token.GEQ:
		op := map[token.Token]string{token.LSS: "<", token.LEQ: "<=", token.GTR: ">", token.GEQ: ">="}[in.Op]
		if srt == "String" {
			switch in.Op {
			case token.LSS:
				return scalar(t, "(str.< "+l.S+" "+r.S+")")
			case token.LEQ:
				return scalar(t, "(str.<= "+l.S+" "+r.S+")")
			case token.GTR:
				return scalar(t, "(str.< "+r.S+" "+l.S+")")
			default:
				return scalar(t, "(str.<= "+r.S+" "+l.S+")")
			}
		}
		if srt == "Str" {
			e.ufun("str_lt", "(Str Str) Bool")
			switch in.Op {
			case token.LSS:
				return scalar(t, "(str_lt "+l.S+" "+r.S+")")
			case token.GTR:
				return scalar(t, "(str_lt "+r.S+" "+l.S+")")
			case token.LEQ:
				return scalar(t, "(not (str_lt "+r.S+" "+l.S+"))")
			default:
				return scalar(t, "(not (str_lt "+l.S+" "+r.S+"))")
			}
		}
		return scalar(t, "("+op+" "+l.S+" "+r.S+")")
	case token.ADD:
		if srt == "String" {
			return scalar(t, "(str.++ "+l.S+" "+r.S+")")
		}
		if srt == "Str" {
			e.ufun("str_cat", "(Str Str) Str")
			return scalar(t, "(str_cat "+l.S+" "+r.S+")")
		}
		return scalar(t, "(+ "+l.S+" "+r.S+")")
	case token.SUB:
		return scalar(t, "(- "+l.S+" "+r.S+")")
	case token.MUL:
		if x.fc != nil && x.fc.NoOverflow && srt == "Int" {
			// machine integers: the mathematical product must be the machine product (declared per function: nooverflow)
			prod := "(* " + l.S + " " + r.S + ")"
			x.oblige(p, "safety", "product_fits_in_64_bits", "(and (<= (- 9223372036854775808) "+prod+") (<= "+prod+" 9223372036854775807))", nil, "nooverflow")
		}
		return scalar(t, "(* "+l.S+" "+r.S+")")
	case token.QUO:
		if srt == "Real" {
			return scalar(t, "(/ "+l.S+" "+r.S+")")
		}
		if !(isNonNegLit(r.S) && r.S != "0") {
			x.oblige(p, "safety", "div_by_zero", "(not (= "+r.S+" 0))", nil, "integer division by zero")
			p.assume("(not (= " + r.S + " 0))")
		}
		return scalar(t, goDiv(l.S, r.S))
	case token.REM:
		if !(isNonNegLit(r.S) && r.S != "0") {
			x.oblige(p, "safety", "div_by_zero", "(not (= "+r.S+" 0))", nil, "integer remainder by zero")
			p.assume("(not (= " + r.S + " 0))")
		}
		return scalar(t, goMod(l.S, r.S))
	case token.AND, token.OR, token.XOR, token.SHL, token.SHR, token.AND_NOT:
		if srt == "Bool" {
			switch in.Op {
			case token.AND:
				return scalar(t, and(l.S, r.S))
			case token.OR:
				return scalar(t, or(l.S, r.S))
			}
		}
		name := map[token.Token]string{token.AND: "bit_and", token.OR: "bit_or", token.XOR: "bit_xor", token.SHL: "bit_shl", token.SHR: "bit_shr", token.AND_NOT: "bit_andnot"}[in.Op]
		e.ufun(name, "(Int Int) Int")
		e.note("bitwise operator " + name + " uninterpreted")
		return scalar(t, "("+name+" "+l.S+" "+r.S+")")
	}
	x.errorf("unsupported binary op %s", in.Op)
	p.dead = true
	return e.freshVal(p, t, "binop")
}

func (x *Exec) convert(p *Path, in *ssa.Convert) Val {
	e := x.e
	v := x.val(p, in.X)
	from, to := e.sortOf(in.X.Type()), e.sortOf(in.Type())
	fk, tk := kindOf(in.X.Type()), kindOf(in.Type())
	if fk == KScalar && tk == KScalar {
		switch {
		case from == to:
			r := v
			r.T = in.Type()
			return r
		case from == "Int" && to == "Real":
			return scalar(in.Type(), toReal(v.S))
		case from == "Real" && to == "Int":
			return scalar(in.Type(), "(ite (>= "+v.S+" 0.0) (to_int "+v.S+") (- (to_int (- "+v.S+"))))")
		}
	}
	// string <-> []byte etc.
	e.note("conversion " + in.X.Type().String() + " -> " + in.Type().String() + " uninterpreted")
	return e.freshVal(p, in.Type(), "conv")
}

// ---- exits -----------------------------------------------------------------

// atExit runs just before deferred calls (or at return when there are none): binds results and applies ghost updates.
func (x *Exec) atExit(p *Path, b *ssa.BasicBlock, i int) {
	fr := p.top()
	if fr.depth != 0 || x.fc == nil {
		return
	}
	if len(x.fc.GhostEns) == 0 {
		return
	}
	// locate the return of this block and compute result values as of now
	var ret *ssa.Return
	for j := i; j < len(b.Instrs); j++ {
		if r, ok := b.Instrs[j].(*ssa.Return); ok {
			ret = r
			break
		}
	}
	var res []Val
	if ret != nil {
		for _, r := range ret.Results {
			if u, ok := r.(*ssa.UnOp); ok && u.Op == token.MUL {
				if av, ok := fr.env[u.X]; ok && av.K == KAddr {
					res = append(res, x.load(p, nil, av.A))
					continue
				}
			}
			if v, ok := fr.env[r]; ok {
				res = append(res, v)
			} else if c, ok := r.(*ssa.Const); ok {
				res = append(res, x.e.constVal(c))
			} else {
				res = append(res, x.e.freshVal(p, r.Type(), "res"))
			}
		}
	}
	x.applyGhost(p, x.fc, x.params, res, p.oldSnap)
}

// applyGhost havocs the ghost targets of fc.Modifies and assumes fc.GhostEns.
func (x *Exec) applyGhost(p *Path, fc *FuncContract, vars map[string]Val, res []Val, old *Snap) {
	pre := x.evalCtx(p, vars)
	pre.pkg = fc.Pkg
	pre.cur = old
	pre.old = old
	// ghost fields this function's ghost_ensures define (ghost state of callees, listed in modifies because the
	// callees update it, is not touched here)
	defined := map[string]bool{}
	seenPred := map[string]bool{}
	var collect func(e Expr)
	collect = func(e Expr) {
		switch e := e.(type) {
		case *ECall:
			if pd := x.e.cs.Preds[e.Fn]; pd != nil && !seenPred[e.Fn] {
				seenPred[e.Fn] = true
				collect(pd.Body)
			}
			for _, a := range e.Args {
				collect(a)
			}
		case *EUnary:
			collect(e.X)
		case *EBinary:
			collect(e.L)
			collect(e.R)
		case *ESel:
			defined[e.F] = true
			collect(e.X)
		case *EIndex:
			collect(e.X)
			collect(e.I)
		case *EQuant:
			collect(e.Body)
		}
	}
	for _, c := range fc.GhostEns {
		collect(c.E)
	}
	for _, m := range fc.Modifies {
		if ex, err := ParseExpr(m); err == nil {
			f := ""
			switch t := ex.(type) {
			case *ESel:
				f = t.F
			case *EIndex:
				if s, ok := t.X.(*ESel); ok {
					f = s.F
				}
			}
			if f != "" && !defined[f] {
				continue
			}
		}
		x.havocTarget(p, pre, m, true, fc)
	}
	ctx := x.evalCtx(p, x.withResults(fc, vars, res))
	ctx.pkg = fc.Pkg
	ctx.old = old
	for _, c := range fc.GhostEns {
		s, err := ctx.EvalBool(c.E)
		if err != nil {
			x.errorf("%s:%d: ghost_ensures: %v", c.File, c.Line, err)
			continue
		}
		p.assume(s)
	}
}

func (x *Exec) withResults(fc *FuncContract, vars map[string]Val, res []Val) map[string]Val {
	out := map[string]Val{}
	for k, v := range vars {
		out[k] = v
	}
	fn := x.e.funcs[fc.Pkg+"."+fc.Name]
	for i, r := range res {
		out[fmt.Sprintf("result%d", i)] = r
		if fn != nil && fn.Signature.Results().Len() > i {
			if n := fn.Signature.Results().At(i).Name(); n != "" && n != "_" {
				out[n] = r
			}
		}
	}
	if fn != nil {
		for was, now := range x.e.renamesOf(fn) {
			if v, ok := out[now]; ok {
				if _, taken := out[was]; !taken {
					out[was] = v
				}
			}
		}
	}
	if len(res) == 1 {
		out["result"] = res[0]
	}
	if len(res) > 0 {
		last := res[len(res)-1]
		if last.K == KIface {
			if _, ok := out["err"]; !ok {
				out["err"] = last
			}
		}
	}
	return out
}

func (x *Exec) checkExit(p *Path, res []Val, panicked bool) {
	if p.dead {
		return
	}
	if prm, tc := x.recvInv(x.fn); tc != nil && !panicked {
		terms, cls := x.invTerms(p, tc, x.params[prm.Name()])
		for i, t := range terms {
			x.oblige(p, "inv", cls[i].Label, t, cls[i].Props, "type invariant of "+shortTypeKey(typeKey(prm.Type()))+" at method exit: "+cls[i].Src)
		}
	}
	fc := x.fc
	if fc == nil {
		// no contract: the locks taken must still be released on every exit (C09 roots)
		for k := range p.locks {
			parts := strings.Split(k, "\x00")
			x.oblige(p, "lock", "released_at_exit", "false", nil, "lock "+parts[len(parts)-1]+" still held at exit")
		}
		return
	}
	vars := x.withResults(fc, x.params, res)
	x.assumeAxioms(p)
	ctx := x.evalCtx(p, vars)
	ctx.frame = p.frames[0]
	clauses := fc.Ensures
	kind := "ensures"
	if panicked {
		clauses = fc.EnsPanic
		kind = "ensures_panic"
		if fc.NoPanic {
			x.oblige(p, "safety", "nopanic", "false", nil, "function declared nopanic has a panicking path")
		}
	}
	p.trace = append(p.trace, kind)
	for _, c := range clauses {
		s, err := ctx.EvalBool(c.E)
		if err != nil {
			if m := unknownIdentRe.FindStringSubmatch(err.Error()); m != nil && x.isLocalName(m[1]) {
				// the clause talks about a local variable this exit path never defined (an earlier return): vacuous here
				continue
			}
			x.errorf("%s:%d: %s: %v", c.File, c.Line, kind, err)
			continue
		}
		x.oblige(p, kind, c.Label, s, c.Props, c.Src)
	}
	// locks must be balanced at exit
	for k := range p.locks {
		parts := strings.Split(k, "\x00")
		held := false
		for _, h := range fc.Holds {
			if len(parts) == 3 && parts[2] == h {
				held = true
			}
		}
		if !held {
			x.oblige(p, "lock", "released_at_exit", "false", nil, "lock "+parts[len(parts)-1]+" still held at exit")
		}
	}
	if !panicked {
		x.frameCheck(p, fc)
	}
	// reachability probe for this exit
	ob := x.oblige(p, "vacuity", "exit_reachable", "false", nil, "exit path feasible")
	if ob != nil {
		ob.Cover = true
		ob.Static = false
	}
}

// raise propagates a panic: run the deferred calls of the current frame, then continue in the caller's panic continuation.
func (x *Exec) raise(p *Path, k *Cont) {
	if p.dead {
		return
	}
	p.trace = append(p.trace, "panic")
	fr := p.top()
	was := p.panicking
	p.panicking = true
	p.recovered = false
	after := func(p *Path) {
		if p.recovered {
			// a deferred call recovered the panic: the function returns normally with its result variables (named
			// results: the recover block reads them; unnamed results are zero values)
			p.recovered = false
			p.panicking = was
			p.trace = append(p.trace, "recovered")
			if rb := fr.fn.Recover; rb != nil {
				// go/ssa's recover block: loads the named results (a deferred call may have set them) and returns
				x.execFrom(p, rb, 0, k)
				return
			}
			var res []Val
			rs := fr.fn.Signature.Results()
			for i := 0; i < rs.Len(); i++ {
				res = append(res, x.e.zeroVal(rs.At(i).Type()))
			}
			k.ret(p, res)
			return
		}
		p.panicking = was
		k.pan(p)
	}
	x.runDefers(p, after, &Cont{ret: func(p *Path, _ []Val) { after(p) }, pan: func(p *Path) { p.panicking = was; k.pan(p) }})
}

func (x *Exec) runDefers(p *Path, then func(p *Path), k *Cont) {
	fr := p.top()
	if len(fr.defers) == 0 {
		then(p)
		return
	}
	d := fr.defers[len(fr.defers)-1]
	fr.defers = fr.defers[:len(fr.defers)-1]
	x.doCallVals(p, d.site, d.call, d.fnv, d.args, func(p *Path, _ Val) {
		x.runDefers(p, then, k)
	}, func(p *Path) {
		// a panic inside a deferred call: keep unwinding
		x.runDefers(p, func(p *Path) { k.pan(p) }, k)
	})
}

// checkWiring: static obligations that a table literal binds each name to the intended function.
func (x *Exec) checkWiring(p *Path, fn *ssa.Function, fc *FuncContract) {
	found := map[string]string{}
	fnName := func(v ssa.Value) string {
		if mi, ok := v.(*ssa.MakeInterface); ok {
			v = mi.X
		}
		if ct, ok := v.(*ssa.ChangeType); ok {
			v = ct.X
		}
		if f, ok := v.(*ssa.Function); ok {
			return f.Name()
		}
		if mc, ok := v.(*ssa.MakeClosure); ok {
			// function literal or bound method value; a bound method is named with its receiver expression
			if f, ok := mc.Fn.(*ssa.Function); ok {
				n := f.Name()
				if strings.HasSuffix(n, "$bound") && len(mc.Bindings) == 1 {
					if u, ok := mc.Bindings[0].(*ssa.UnOp); ok {
						if g, ok := u.X.(*ssa.Global); ok {
							return g.Name() + "." + strings.TrimSuffix(n, "$bound")
						}
					}
				}
				return n
			}
		}
		return ""
	}
	for _, b := range fn.Blocks {
		for _, in := range b.Instrs {
			switch in := in.(type) {
			case *ssa.Store:
				if fa, ok := in.Addr.(*ssa.FieldAddr); ok {
					st := structOf(fa.X.Type())
					tn := typeKey(fa.X.Type())
					if i := strings.LastIndex(tn, "."); i >= 0 {
						tn = tn[i+1:]
					}
					if n := fnName(in.Val); n != "" {
						found[tn+"."+st.Field(fa.Field).Name()] = n
					}
				}
			case *ssa.MapUpdate:
				if c, ok := in.Key.(*ssa.Const); ok && c.Value != nil {
					if n := fnName(in.Value); n != "" {
						found["["+c.Value.ExactString()+"]"] = n
					}
				}
			}
		}
	}
	for _, w := range fc.Wiring {
		i := strings.LastIndex(w, "=")
		if i < 0 {
			x.errorf("wiring: bad item %q", w)
			continue
		}
		slot, want := w[:i], w[i+1:]
		goal := "false"
		if found[slot] == want {
			goal = "true"
		}
		x.oblige(p, "wiring", slot, goal, nil, "table entry "+slot+" is bound to "+want+" (found "+found[slot]+")")
	}
}

// implFun names the uninterpreted predicate "dynamic type tag implements interface T".
func implFun(t types.Type) string {
	n := types.TypeString(t, nil)
	return "impl_" + strings.NewReplacer("/", "_", ".", "_", "*", "p", " ", "", "{", "", "}", "", "(", "", ")", "", ",", "_", "[", "", "]", "").Replace(n)
}

// insertOnlyCheck: a store into (or, with nv == nil, a delete from) a map field declared insert_only must not replace or
// remove an existing entry of a shared object.
func (x *Exec) insertOnlyCheck(p *Path, mt types.Type, mv, kv Val, nv *Val) {
	if mv.Own == nil {
		return
	}
	tc := x.e.cs.Types[mv.Own.TKey]
	if tc == nil || !tc.InsertOnly[mv.Own.Field] || x.isFreshObj(p, mv.Own.Obj) {
		return
	}
	old, dom := x.e.mapLoadX(p, nil, mt, mv.S, kv.S, true)
	goal := not(dom)
	if nv != nil && old.K == KScalar && nv.K == KScalar {
		goal = or(not(dom), eq(old.S, nv.S))
	}
	what := "replaces"
	if nv == nil {
		what = "deletes"
	}
	x.oblige(p, "guard", "insert_only:"+mv.Own.Field, goal, []string{"C09"}, "store "+what+" an existing entry of "+shortTypeKey(mv.Own.TKey)+"."+mv.Own.Field+" (declared insert_only: the updates made through the old entry would be lost)")
}
