package main

import (
	"go/types"
	"context"
	"encoding/json"
	"flag"
	"fmt"
	"os"
	"os/exec"
	"path/filepath"
	"regexp"
	"sort"
	"strings"
	"sync"
	"time"

	"golang.org/x/tools/go/ssa"
)

type ssaFunction = ssa.Function
type ssaBlock = ssa.BasicBlock

type knownFinding struct {
	Prop       string
	Obligation string
	Trace      string // optional substring of the path trace
	What       string
}

func loadKnownFindings(path string) ([]knownFinding, error) {
	b, err := os.ReadFile(path)
	if err != nil {
		if os.IsNotExist(err) {
			return nil, nil
		}
		return nil, err
	}
	var out []knownFinding
	re := regexp.MustCompile(`^finding:\s+property=(\S+)\s+obligation=(\S+)(?:\s+trace=(\S+))?\s*(.*)$`)
	for _, l := range strings.Split(string(b), "\n") {
		l = strings.TrimSpace(l)
		if m := re.FindStringSubmatch(l); m != nil {
			out = append(out, knownFinding{Prop: m[1], Obligation: m[2], Trace: m[3], What: m[4]})
		}
	}
	return out, nil
}

func hasProp(props []string, id string) bool {
	for _, p := range props {
		if p == id {
			return true
		}
	}
	return false
}

type obReport struct {
	Name   string  `json:"name"`
	Result string  `json:"result"`
	Solver string  `json:"solver"`
	TimeS  float64 `json:"time_s"`
	Paths  int     `json:"instances"`
}

func cmdProp(args []string) {
	fs := flag.NewFlagSet("prop", flag.ExitOnError)
	repo := fs.String("repo", "/repo", "repository root")
	verif := fs.String("verif", "/verif", "verif root")
	id := fs.String("id", "", "property id")
	tier := fs.String("tier", "quick", "quick|thorough")
	workers := fs.Int("j", 12, "parallel solver jobs")
	evDir := fs.String("evidence", "", "directory for the evidence file and replays (default <verif>/evidence)")
	fs.Parse(args)
	if *evDir == "" {
		*evDir = filepath.Join(*verif, "evidence")
	}
	t0 := time.Now()
	seed := 0
	fmt.Sscanf(os.Getenv("VERIF_SEED"), "%d", &seed)
	quickS, fullS := 3, 15
	if *tier == "thorough" {
		quickS, fullS = 10, 60
	}
	evPath := filepath.Join(*evDir, *id+".json")
	os.MkdirAll(filepath.Dir(evPath), 0o755)
	os.Remove(evPath)
	replayDir := filepath.Join(*evDir, "replay", *id)
	os.RemoveAll(replayDir)

	e, err := LoadEngine(*repo, []string{"./..."})
	if err != nil {
		fmt.Fprintln(os.Stderr, "load:", err)
		fmt.Printf("VIOLATION property=%s replay=%s no-failing-input-found\n", *id, writeReplay(replayDir, "load_error", map[string]interface{}{"error": err.Error()}))
		writeEvidence(evPath, *id, *tier, seed, nil, nil, nil, 1, time.Since(t0).Seconds(), []string{"repository failed to load: " + err.Error()}, nil)
		os.Exit(1)
	}
	known, err := loadKnownFindings(filepath.Join(*verif, "known_findings.txt"))
	if err != nil {
		fmt.Fprintln(os.Stderr, err)
		os.Exit(2)
	}
	var keys []string
	for k, fc := range e.cs.Funcs {
		if hasProp(fc.Props, *id) {
			keys = append(keys, k)
		}
	}
	// modularity: a caller is checked against its callees' contracts, so within one property every contract that a
	// verified function relies on must itself be verified there. The functions tagged for the property are closed under
	// "calls a function of oxy that has a contract" (through contract-less helpers that get inlined, and closures).
	viaCallee := map[string]bool{}
	if *id != "C09" {
		keys, viaCallee = e.closeUnderCallees(keys)
	}
	uncontracted := map[string]bool{}
	if *id == "C09" {
		for _, k := range c09Roots(e) {
			if e.cs.Funcs[k] == nil {
				uncontracted[k] = true
				keys = append(keys, k)
			} else if !hasProp(e.cs.Funcs[k].Props, *id) {
				keys = append(keys, k)
			}
		}
	}
	// type invariants: every method of a type that declares invariants for this property is verified to preserve them,
	// whether or not it has a contract of its own (a method added later is covered the day it appears)
	invOnly := map[string]bool{}
	inKeys := map[string]bool{}
	for _, k := range keys {
		inKeys[k] = true
	}
	for k, fn := range e.funcs {
		if inKeys[k] || fn.Signature.Recv() == nil || len(fn.Params) == 0 || fn.Synthetic != "" || len(fn.Blocks) == 0 {
			continue
		}
		t := fn.Params[0].Type()
		if pt, ok := t.Underlying().(*types.Pointer); ok {
			t = pt.Elem()
		}
		tc := e.cs.Types[typeKey(t)]
		if tc == nil || len(tc.Invs) == 0 {
			continue
		}
		for _, li := range tc.Invs {
			if len(li.C.Props) == 0 || hasProp(li.C.Props, *id) {
				invOnly[k] = true
			}
		}
		if invOnly[k] {
			keys = append(keys, k)
		}
	}
	sort.Strings(keys)
	scratch, _ := os.MkdirTemp("", "goverif-"+*id)
	defer os.RemoveAll(scratch)

	var all []*Obligation
	var notAnalysed []string
	var engineErrs []string
	trusted := map[string]bool{}
	var funcs []string
	npaths := 0
	for _, k := range keys {
		fc := e.cs.Funcs[k]
		if e.funcs[k] == nil {
			engineErrs = append(engineErrs, "contract for unknown function "+k)
			continue
		}
		syncOnly := false
		if fc != nil && fc.Trusted && *id != "C09" && !invOnly[k] {
			trusted["trusted contract (body not verified): "+shortTypeKey(k)] = true
			if !inC09Package(k) {
				continue
			}
			// the functional contract is taken on trust, the lock discipline of the body is not: its guard / lock
			// obligations are checked like everybody else's
			syncOnly = true
		}
		x, err := e.VerifyFunction(k)
		if err != nil {
			engineErrs = append(engineErrs, err.Error())
			continue
		}
		funcs = append(funcs, shortTypeKey(k))
		npaths += x.npaths
		for _, er := range x.errs {
			if uncontracted[k] {
				notAnalysed = append(notAnalysed, shortTypeKey(k)+": "+er)
				continue
			}
			engineErrs = append(engineErrs, shortTypeKey(k)+": "+er)
		}
		for t := range e.trusted {
			trusted[t] = true
		}
		var mine []*Obligation
		for _, ob := range x.obs {
			if syncOnly {
				if ob.Kind == "guard" || ob.Kind == "lock" || strings.HasSuffix(ob.Kind, ":holds") || strings.HasSuffix(ob.Kind, ":deadlock") {
					mine = append(mine, ob)
				}
				continue
			}
			if invOnly[k] {
				if ob.Kind == "inv" && (len(ob.Props) == 0 || hasProp(ob.Props, *id)) {
					mine = append(mine, ob)
				}
				continue
			}
			if *id == "C09" {
				// only the synchronisation obligations (and the vacuity probes) belong to C09
				if hasProp(ob.Props, "C09") || ob.Kind == "lock" || (ob.Cover && strings.HasSuffix(ob.Name, "requires_sat")) {
					mine = append(mine, ob)
				}
				continue
			}
			// the synchronisation obligations of a function (guard:*, lock:*) belong to every property the function is
			// verified for: all its other proofs assume the lock discipline
			if len(ob.Props) == 0 || hasProp(ob.Props, *id) || viaCallee[k] || ((ob.Kind == "guard" || ob.Kind == "lock" || strings.HasSuffix(ob.Kind, ":holds") || strings.HasSuffix(ob.Kind, ":deadlock")) && inC09Package(k)) {
				mine = append(mine, ob)
			}
		}
		all = append(all, mine...)
	}
	e.Discharge(all, scratch, quickS, fullS, *workers)
	// lemmas of the packages involved
	lemObs := e.lemmaObligations(*id, keys)
	if len(lemObs) > 0 {
		sd := filepath.Join(scratch, "lemmas")
		os.MkdirAll(sd, 0o755)
		e.Discharge(lemObs, sd, quickS, fullS*2, *workers)
		all = append(all, lemObs...)
	}
	// thorough tier: every discharged obligation is put to a second solver (agreement check)
	agreeConfirmed, agreeUnknown := 0, 0
	var disagreements []string
	if *tier == "thorough" {
		agreeConfirmed, agreeUnknown, disagreements = e.crossCheck(all, filepath.Join(scratch, "agree"), *workers)
	}

	// aggregate
	type agg struct {
		rep  obReport
		fail []*Obligation
	}
	byName := map[string]*agg{}
	var names []string
	bySolver := map[string]int{}
	solverTime := 0.0
	nOb, nDis, nCover, nCoverOK := 0, 0, 0, 0
	exitSat, exitAll := map[string]int{}, map[string]int{}
	for _, ob := range all {
		if ob.Cover && strings.HasSuffix(ob.Name, "exit_reachable") {
			exitAll[ob.Func]++
			if ob.Result != "unsat" {
				exitSat[ob.Func]++
			}
		}
	}
	for fn, n := range exitAll {
		if n > 0 && exitSat[fn] == 0 {
			engineErrs = append(engineErrs, "vacuity: no exit of "+fn+" is reachable under its preconditions and assumed contracts")
		}
	}
	for _, ob := range all {
		solverTime += ob.TimeS
		if ob.Cover {
			nCover++
			if ob.Result != "unsat" {
				nCoverOK++
				continue
			}
			// vacuous: the path condition is contradictory only for exit probes of infeasible paths, which is fine;
			// a contradictory precondition is not.
			if strings.HasSuffix(ob.Name, "requires_sat") {
				a := byName[ob.Name]
				if a == nil {
					a = &agg{rep: obReport{Name: ob.Name}}
					byName[ob.Name] = a
					names = append(names, ob.Name)
				}
				a.fail = append(a.fail, ob)
			}
			continue
		}
		nOb++
		a := byName[ob.Name]
		if a == nil {
			a = &agg{rep: obReport{Name: ob.Name, Result: "unsat"}}
			byName[ob.Name] = a
			names = append(names, ob.Name)
		}
		a.rep.Paths++
		a.rep.TimeS += ob.TimeS
		if a.rep.Solver == "" {
			a.rep.Solver = ob.Solver
		}
		if ob.Result == "unsat" {
			nDis++
			bySolver[ob.Solver]++
		} else {
			a.rep.Result = ob.Result
			a.fail = append(a.fail, ob)
		}
	}
	sort.Strings(names)
	violations := 0
	nKnown := 0 // obligations that fail and are listed as known findings: reported apart, not part of the proved set
	var knownObs []string
	var knownLines []string
	var failedNames []string
	for _, n := range names {
		a := byName[n]
		if len(a.fail) == 0 {
			continue
		}
		var unknownFails []*Obligation
		for _, ob := range a.fail {
			kf := matchKnown(known, *id, ob)
			if kf != nil {
				knownLines = append(knownLines, fmt.Sprintf("KNOWN-FINDING: property=%s %s: %s", *id, ob.Name, kf.What))
				knownObs = append(knownObs, ob.Name)
				nKnown++
				continue
			}
			unknownFails = append(unknownFails, ob)
		}
		if len(unknownFails) == 0 {
			continue
		}
		violations++
		failedNames = append(failedNames, n)
		ob := unknownFails[0]
		for _, o2 := range unknownFails {
			if o2.Result == "sat" { // prefer an instance with a model
				ob = o2
				break
			}
		}
		var traces []string
		for _, o2 := range unknownFails {
			traces = append(traces, strings.Join(o2.Trace, " "))
		}
		info := map[string]interface{}{
			"property": *id, "obligation": ob.Name, "function": ob.Func, "clause": ob.Src, "solver_result": ob.Result,
			"solver": ob.Solver, "solver_output": ob.Model, "path_trace": ob.Trace, "smt_script": ob.Script,
			"failing_instances": len(unknownFails), "failing_paths": traces,
		}
		rp := writeReplay(replayDir, ob.Name, info)
		suffix := " no-failing-input-found"
		if _, ok := e.tryReplay(ob, *id, *repo, *verif, rp); ok {
			suffix = ""
		}
		fmt.Printf("VIOLATION property=%s replay=%s obligation=%s result=%s instances=%d%s\n", *id, rp, ob.Name, ob.Result, len(unknownFails), suffix)
	}
	for _, d := range disagreements {
		// two solvers disagree on an obligation: nothing is claimed for it
		engineErrs = append(engineErrs, "solvers disagree on "+d)
	}
	for _, er := range engineErrs {
		violations++
		rp := writeReplay(replayDir, "engine_error", map[string]interface{}{"property": *id, "error": er, "note": "an obligation could not be generated for the current source; it is undecided"})
		fmt.Printf("VIOLATION property=%s replay=%s obligation=engine:undecided no-failing-input-found\n", *id, rp)
		fmt.Fprintln(os.Stderr, "engine error:", er)
	}
	if len(keys) == 0 || nOb == 0 {
		violations++
		rp := writeReplay(replayDir, "no_obligations", map[string]interface{}{"property": *id, "error": "no obligations generated (vacuous run)"})
		fmt.Printf("VIOLATION property=%s replay=%s obligation=engine:no_obligations no-failing-input-found\n", *id, rp)
	}
	// expected counts guard
	if exp := loadExpected(filepath.Join(*verif, "expected_counts.json")); exp != nil {
		if want, ok := exp[*id]; ok && violations == 0 {
			if len(names) < want/2 {
				violations++
				rp := writeReplay(replayDir, "count_drop", map[string]interface{}{"property": *id, "error": fmt.Sprintf("only %d distinct obligations generated, expected about %d", len(names), want)})
				fmt.Printf("VIOLATION property=%s replay=%s obligation=engine:count_drop no-failing-input-found\n", *id, rp)
			}
		}
	}
	// bounded stand-ins: functions outside the verifier's reach get a bounded in-package check (never counted as proved)
	bounded := e.runBounded(*id, *repo, *verif, *tier)
	var boundedDesc []string
	for _, b := range bounded {
		boundedDesc = append(boundedDesc, fmt.Sprintf("%s: %s [bounded check %s: %s]", b.Func, b.Bound, b.File, b.Status))
		if b.Failed {
			violations++
			rp := writeReplay(replayDir, "bounded_"+b.Func, map[string]interface{}{"property": *id, "obligation": "bounded:" + b.Func, "bound": b.Bound, "replay_output": b.Output, "replay_failed_on_real_code": true, "replay_harness": b.File})
			fmt.Printf("VIOLATION property=%s replay=%s obligation=bounded:%s\n", *id, rp, b.Func)
		}
	}
	sort.Strings(knownLines)
	seenK := map[string]bool{}
	for _, l := range knownLines {
		if !seenK[l] {
			fmt.Println(l)
			seenK[l] = true
		}
	}
	// the slowest obligations of this run (a query that needs seconds is the one that may time out under load)
	type slowOb struct {
		Name   string  `json:"obligation"`
		TimeS  float64 `json:"time_s"`
		Solver string  `json:"solver"`
	}
	var slow []slowOb
	for _, ob := range all {
		if !ob.Cover && ob.TimeS >= 1.0 {
			slow = append(slow, slowOb{ob.Name, round3(ob.TimeS), ob.Solver})
		}
	}
	sort.Slice(slow, func(i, j int) bool { return slow[i].TimeS > slow[j].TimeS })
	if len(slow) > 8 {
		slow = slow[:8]
	}
	var samples []interface{}
	for i, n := range names {
		if i%maxInt(1, len(names)/5) == 0 && len(samples) < 6 {
			a := byName[n]
			samples = append(samples, map[string]interface{}{"obligation": n, "instances": a.rep.Paths, "result": a.rep.Result, "solver": a.rep.Solver, "time_s": round3(a.rep.TimeS)})
		}
	}
	var tb []string
	for t := range trusted {
		tb = append(tb, t)
	}
	sort.Strings(tb)
	cov := map[string]interface{}{
		"obligations":               nOb - nKnown,
		"discharged":                nDis,
		"known_finding_obligations": knownObs,
		"second_solver_confirmed":   agreeConfirmed,
		"second_solver_undecided":   agreeUnknown,
		"solver_disagreements":      disagreements,
		"distinct_obligation_names": len(names),
		"checker_cmd":               fmt.Sprintf("/verif/check %s --tier %s  (goverif: go/ssa weakest-precondition generator; z3-new 5.1.0, z3 4.8.12, cvc5 1.0 portfolio)", *id, *tier),
		"trusted_base":              tb,
		"functions_under_contract":  funcs,
		"paths_explored":            npaths,
		"by_solver":                 bySolver,
		"solver_time_s":             round3(solverTime),
		"vacuity_probes":            nCover,
		"vacuity_probes_sat":        nCoverOK,
		"samples":                   samples,
		"slowest_obligations":       slow,
		"known_findings_reported":   len(seenK),
		"failed_obligations":        failedNames,
		"contract_files":            relFiles(e.cs.Files, *repo),
		"bounded_stand_ins":         boundedDesc,
		"not_analysed":              notAnalysed,
	}
	assumptions := append([]string{
		"integers are mathematical (no overflow) unless an explicit no-overflow obligation is listed",
		"float64 is modelled as real",
		"sync.Mutex/RWMutex give mutual exclusion; lock invariants hold whenever the lock is free",
		"arbitrary callees (handlers, listeners) do not re-enter the administration API of the same instance",
	}, tb...)
	writeEvidence(evPath, *id, *tier, seed, cov, nil, nil, violations, time.Since(t0).Seconds(), assumptions, nil)
	fmt.Printf("%s: %d obligations (%d distinct), %d discharged, %d functions, %d known findings, %d violations, %.1fs\n", *id, nOb, len(names), nDis, len(funcs), len(seenK), violations, time.Since(t0).Seconds())
	if violations > 0 {
		os.Exit(1)
	}
}

func maxInt(a, b int) int {
	if a > b {
		return a
	}
	return b
}

func round3(f float64) float64 { return float64(int(f*1000+0.5)) / 1000 }

func relFiles(fs []string, repo string) []string {
	var out []string
	for _, f := range fs {
		out = append(out, strings.TrimPrefix(f, repo+"/"))
	}
	return out
}

func matchKnown(known []knownFinding, id string, ob *Obligation) *knownFinding {
	for i := range known {
		k := &known[i]
		if k.Prop != id || k.Obligation != ob.Name {
			continue
		}
		if k.Trace != "" && !strings.Contains(strings.Join(ob.Trace, ","), k.Trace) {
			continue
		}
		return k
	}
	return nil
}

func loadExpected(path string) map[string]int {
	b, err := os.ReadFile(path)
	if err != nil {
		return nil
	}
	m := map[string]int{}
	if json.Unmarshal(b, &m) != nil {
		return nil
	}
	return m
}

func writeReplay(dir, name string, info map[string]interface{}) string {
	os.MkdirAll(dir, 0o755)
	fn := regexp.MustCompile(`[^A-Za-z0-9_.#:-]+`).ReplaceAllString(name, "_")
	p := filepath.Join(dir, fn+".json")
	for i := 2; ; i++ {
		if _, err := os.Stat(p); err != nil {
			break
		}
		p = filepath.Join(dir, fmt.Sprintf("%s.%d.json", fn, i))
	}
	b, _ := json.MarshalIndent(info, "", " ")
	os.WriteFile(p, b, 0o644)
	return p
}

func writeEvidence(path, id, tier string, seed int, cov map[string]interface{}, _ interface{}, _ interface{}, violations int, wall float64, assumptions []string, _ interface{}) {
	if cov == nil {
		cov = map[string]interface{}{"obligations": 0, "discharged": 0, "checker_cmd": "/verif/check " + id, "trusted_base": []string{}, "samples": []interface{}{"none"}}
	}
	ev := map[string]interface{}{
		"property_id": id,
		"tier":        tier,
		"seed":        seed,
		"level":       "proof",
		"coverage":    cov,
		"assumptions": assumptions,
		"wall_s":      round3(wall),
		"violations":  violations,
	}
	b, _ := json.MarshalIndent(ev, "", " ")
	os.WriteFile(path, b, 0o644)
}

// lemmaObligations: each //@ lemma of the packages whose functions serve this property is proved from the axioms.
func (e *Engine) lemmaObligations(id string, keys []string) []*Obligation {
	pkgs := map[string]bool{}
	for _, k := range keys {
		if fc := e.cs.Funcs[k]; fc != nil {
			pkgs[fc.Pkg] = true
		}
	}
	var out []*Obligation
	var pl []string
	for p := range pkgs {
		pl = append(pl, p)
	}
	sort.Strings(pl)
	for _, pkg := range pl {
		for _, th := range e.cs.Theorems[pkg] {
			if len(th.Props) > 0 && !hasProp(th.Props, id) {
				continue
			}
			e.newRun(false)
			x := &Exec{e: e, maxPaths: 10, loops: map[*ssaFunction]map[*ssaBlock]*Loop{}, pkg: pkg}
			p := x.newPath()
			ctx := &EvalCtx{x: x, p: p, pkg: pkg}
			// forall xs :: H1 && ... && Hn ==> G  is skolemised here: constants for xs, one assertion per Hi
			body := th.E
			if q, ok := body.(*EQuant); ok && q.Forall {
				vars := map[string]Val{}
				for _, qv := range q.Vars {
					srt, t := ctx.specSort(qv.Type)
					vars[qv.Name] = Val{K: KScalar, T: t, S: e.fresh("sk_"+qv.Name, srt), Sort: srt}
				}
				ctx = ctx.with(vars)
				body = q.Body
			}
			var hyps []Expr
			if b, ok := body.(*EBinary); ok && b.Op == "==>" {
				var flat func(x Expr)
				flat = func(x Expr) {
					if bb, ok := x.(*EBinary); ok && bb.Op == "&&" {
						flat(bb.L)
						flat(bb.R)
						return
					}
					hyps = append(hyps, x)
				}
				flat(b.L)
				body = b.R
			}
			bad := false
			for _, h := range hyps {
				hs, err := ctx.EvalBool(h)
				if err != nil {
					fmt.Fprintln(os.Stderr, "theorem", th.Label, err)
					bad = true
					break
				}
				p.assume(hs)
			}
			if bad {
				continue
			}
			goal, err := ctx.EvalBool(body)
			if err != nil {
				fmt.Fprintln(os.Stderr, "theorem", th.Label, err)
				continue
			}
			ob := &Obligation{Name: shortTypeKey(pkg) + ".theorem#" + th.Label, Func: "theorem", Kind: "theorem", Goal: goal, Src: th.Src}
			ob.Assumes = append([]string(nil), p.assumes...)
			ob.Script = e.script(ob)
			out = append(out, ob)
		}
		for _, lem := range e.cs.Lemmas[pkg] {
			if len(lem.Props) > 0 && !hasProp(lem.Props, id) {
				continue
			}
			e.newRun(false)
			x := &Exec{e: e, maxPaths: 10, loops: map[*ssaFunction]map[*ssaBlock]*Loop{}, pkg: pkg}
			p := x.newPath()
			ctx := &EvalCtx{x: x, p: p, pkg: pkg}
			for _, ax := range e.cs.Axioms[pkg] {
				if ax.File != lem.File {
					continue
				}
				s, err := ctx.EvalBool(ax.E)
				if err == nil {
					p.assume(s)
				}
			}
			// earlier lemmas of the same package may be used
			for _, l2 := range e.cs.Lemmas[pkg] {
				if l2 == lem {
					break
				}
				if l2.File != lem.File {
					continue
				}
				if s, err := ctx.EvalBool(l2.E); err == nil {
					p.assume(s)
				}
			}
			goal, err := ctx.EvalBool(lem.E)
			if err != nil {
				fmt.Fprintln(os.Stderr, "lemma", lem.Label, err)
				continue
			}
			ob := &Obligation{Name: shortTypeKey(pkg) + ".lemma#" + lem.Label, Func: "lemma", Kind: "lemma", Goal: goal, Src: lem.Src}
			ob.Assumes = append([]string(nil), p.assumes...)
			ob.Script = e.script(ob)
			out = append(out, ob)
		}
	}
	return out
}

type boundedRun struct {
	Func, Bound, File, Status, Output string
	Failed                            bool
}

// runBounded executes /verif/bounded/<id>/*.go (in-package tests injected with -overlay). Headers:
//
//	// bounded-pkg: memmetrics      // bounded-func: <function standing in for>      // bounded-bound: <stated bound>
//	// bounded-props: <further properties whose proofs use the assumed contract>
func (e *Engine) runBounded(id, repo, verif, tier string) []boundedRun {
	files, _ := filepath.Glob(filepath.Join(verif, "bounded", "*", "*.go"))
	sort.Strings(files)
	var out []boundedRun
	for _, f := range files {
		src, err := os.ReadFile(f)
		if err != nil {
			continue
		}
		// a stand-in belongs to the property of its directory and to every property named in `// bounded-props:`
		// (the properties whose proofs use the assumed contract it stands in for)
		mine := filepath.Base(filepath.Dir(f)) == id
		if m := regexp.MustCompile(`(?m)^// bounded-props:\s*(.+)$`).FindStringSubmatch(string(src)); m != nil {
			for _, q := range strings.Fields(m[1]) {
				if q == id {
					mine = true
				}
			}
		}
		if !mine {
			continue
		}
		get := func(key string) string {
			m := regexp.MustCompile(`(?m)^// ` + key + `:\s*(.+)$`).FindStringSubmatch(string(src))
			if m == nil {
				return ""
			}
			return strings.TrimSpace(m[1])
		}
		pkg := get("bounded-pkg")
		if pkg == "" {
			continue
		}
		scratch, _ := os.MkdirTemp("", "bounded")
		target := filepath.Join(repo, pkg, "zz_verif_bounded_test.go")
		ovb, _ := json.Marshal(map[string]interface{}{"Replace": map[string]string{target: f}})
		ovf := filepath.Join(scratch, "overlay.json")
		os.WriteFile(ovf, ovb, 0o644)
		cmd := exec.Command("go", "test", "-overlay", ovf, "-vet=off", "-count=1", "-timeout", "120s", "-run", "TestVerifBounded", "./"+pkg)
		cmd.Dir = repo
		cmd.Env = append(os.Environ(), "GOFLAGS=-mod=mod", "GOPROXY=off", "GOSUMDB=off", "GOTOOLCHAIN=local", "VERIF_TIER="+tier)
		o, err := cmd.CombinedOutput()
		os.RemoveAll(scratch)
		bound := get("bounded-bound")
		if tier == "thorough" && get("bounded-bound-thorough") != "" {
			bound = get("bounded-bound-thorough")
		}
		b := boundedRun{Func: get("bounded-func"), Bound: bound, File: strings.TrimPrefix(f, verif+"/"), Output: tail(string(o), 3000)}
		if err != nil {
			b.Failed = true
			b.Status = "FAILED"
		} else {
			b.Status = "passed"
		}
		out = append(out, b)
	}
	return out
}

// c09Roots: the entry points of the packages named by C09: exported functions and methods, function literals,
// and everything under contract. Unexported helpers without a contract are covered by inlining from their callers.
var c09Packages = []string{"/roundrobin", "/cbreaker", "/memmetrics", "/ratelimit", "/connlimit", "/internal/holsterv4/collections", "/trace"}

// inC09Package: the function (key pkgpath.name) belongs to one of the packages whose types carry complete
// synchronisation declarations (the packages C09 names).
func inC09Package(funcKey string) bool {
	for _, p := range c09Packages {
		if strings.HasPrefix(funcKey, oxyMod+p+".") {
			return true
		}
	}
	return false
}

func c09Roots(e *Engine) []string {
	pkgs := c09Packages
	var out []string
	for k, f := range e.funcs {
		in := false
		for _, p := range pkgs {
			if f.Pkg != nil && f.Pkg.Pkg.Path() == oxyMod+p {
				in = true
			}
		}
		if !in || len(f.Blocks) == 0 {
			continue
		}
		if e.cs.Funcs[k] != nil {
			out = append(out, k)
			continue
		}
		name := f.Name()
		if f.Parent() != nil || (len(name) > 0 && name[0] >= 'A' && name[0] <= 'Z') {
			out = append(out, k)
		}
	}
	sort.Strings(out)
	return out
}

// crossCheck re-runs every obligation that one solver discharged (unsat) on a different solver with a short budget.
// A second "unsat" confirms, "unknown"/"timeout" leaves the first answer standing, "sat" is a disagreement.
func (e *Engine) crossCheck(obs []*Obligation, dir string, workers int) (confirmed, undecided int, disagreements []string) {
	os.MkdirAll(dir, 0o755)
	var mu sync.Mutex
	var wg sync.WaitGroup
	sem := make(chan struct{}, workers)
	for i, ob := range obs {
		if ob.Cover || ob.Static || ob.Result != "unsat" || ob.Script == "" {
			continue
		}
		var second solverSpec
		switch {
		case ob.Strings && ob.Solver == "cvc5":
			second = solvers[0]
		case ob.Strings:
			second = solvers[2]
		case ob.Solver == "z3-new":
			second = solvers[2] // cvc5: an independent code base
		default:
			second = solvers[0]
		}
		wg.Add(1)
		sem <- struct{}{}
		go func(i int, ob *Obligation, sp solverSpec) {
			defer wg.Done()
			defer func() { <-sem }()
			r := runSolver(context.Background(), sp, dir, fmt.Sprintf("x%05d", i), ob.Script, 5, ob.Strings, nil)
			mu.Lock()
			defer mu.Unlock()
			switch r.status {
			case "unsat":
				confirmed++
			case "sat":
				disagreements = append(disagreements, ob.Name+" ("+ob.Solver+": unsat, "+sp.name+": sat)")
			default:
				undecided++
			}
		}(i, ob, second)
	}
	wg.Wait()
	sort.Strings(disagreements)
	return
}


// closeUnderCallees adds to keys every contracted oxy function that a function in keys calls (directly, through a
// contract-less helper, or from one of its function literals), transitively. The second result marks the additions.
func (e *Engine) closeUnderCallees(keys []string) ([]string, map[string]bool) {
	rev := map[*ssa.Function]string{}
	for k, f := range e.funcs {
		if old, ok := rev[f]; !ok || len(k) < len(old) {
			rev[f] = k
		}
	}
	in := map[string]bool{}
	for _, k := range keys {
		in[k] = true
	}
	added := map[string]bool{}
	work := append([]string{}, keys...)
	var callees func(fn *ssa.Function, depth int, seen map[*ssa.Function]bool, out map[string]bool)
	callees = func(fn *ssa.Function, depth int, seen map[*ssa.Function]bool, out map[string]bool) {
		if fn == nil || seen[fn] || depth > 4 {
			return
		}
		seen[fn] = true
		visit := func(g *ssa.Function) {
			if g == nil {
				return
			}
			k, ok := rev[g]
			if !ok {
				if g.Parent() != nil { // function literal: its calls are made on behalf of the enclosing function
					callees(g, depth, seen, out)
				}
				return
			}
			if e.cs.Funcs[k] != nil {
				out[k] = true
				return
			}
			callees(g, depth+1, seen, out) // contract-less helper: inlined by the executor
		}
		for _, b := range fn.Blocks {
			for _, ins := range b.Instrs {
				if c, ok := ins.(ssa.CallInstruction); ok {
					visit(c.Common().StaticCallee())
				}
				for _, op := range ins.Operands(nil) {
					if op == nil || *op == nil {
						continue
					}
					switch v := (*op).(type) {
					case *ssa.Function:
						visit(v)
					case *ssa.MakeClosure:
						if f, ok := v.Fn.(*ssa.Function); ok {
							visit(f)
						}
					}
				}
			}
		}
	}
	for len(work) > 0 {
		k := work[0]
		work = work[1:]
		fn := e.funcs[k]
		if fn == nil {
			continue
		}
		if fc := e.cs.Funcs[k]; fc != nil && fc.Trusted {
			continue // the body of a trusted contract is not looked at
		}
		out := map[string]bool{}
		callees(fn, 0, map[*ssa.Function]bool{}, out)
		for c := range out {
			if !in[c] {
				in[c] = true
				added[c] = true
				keys = append(keys, c)
				work = append(work, c)
			}
		}
	}
	return keys, added
}
