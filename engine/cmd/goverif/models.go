package main

// Models of builtins and of the standard-library / dependency functions the verified code calls.
// Each model is an assumed contract (listed in the evidence as trusted).

import (
	"fmt"
	"go/types"
	_ "strings"

	"golang.org/x/tools/go/ssa"
)

type model struct {
	fn     func(x *Exec, p *Path, site ssa.Instruction, cc *ssa.CallCommon, args []Val) ([]Val, bool)
	locks  bool
	silent bool // do not record as an event
}

var models map[string]*model

func lookupModel(name string) *model {
	if models == nil {
		initModels()
	}
	return models[name]
}

const clockPkg = oxyMod + "/internal/holsterv4/clock"

func initModels() {
	models = map[string]*model{}
	tInt := func(s string) Val { return scalar(types.Typ[types.Int64], s) }
	lockModel := func(mode string, acquire bool) *model {
		return &model{locks: acquire, silent: true, fn: func(x *Exec, p *Path, site ssa.Instruction, cc *ssa.CallCommon, args []Val) ([]Val, bool) {
			own, label, ok := x.lockIdentity(p, args[0])
			if !ok {
				x.e.note("lock operation on untracked mutex in " + x.fn.String())
				return nil, true
			}
			if acquire {
				x.acquire(p, own, label, mode)
			} else {
				x.release(p, own, label, mode)
			}
			return nil, true
		}}
	}
	models["(*sync.Mutex).Lock"] = lockModel("w", true)
	models["(*sync.Mutex).Unlock"] = lockModel("w", false)
	models["(*sync.RWMutex).Lock"] = lockModel("w", true)
	models["(*sync.RWMutex).Unlock"] = lockModel("w", false)
	models["(*sync.RWMutex).RLock"] = lockModel("r", true)
	models["(*sync.RWMutex).RUnlock"] = lockModel("r", false)

	now := &model{silent: true, fn: func(x *Exec, p *Path, site ssa.Instruction, cc *ssa.CallCommon, args []Val) ([]Val, bool) {
		x.e.note("clock.Now() is monotone; time.Time is integer nanoseconds")
		if x.clockStable {
			return []Val{scalar(cc.Signature().Results().At(0).Type(), p.clock)}, true
		}
		t := x.e.fresh("now", "Int")
		p.assume("(>= " + t + " " + p.clock + ")")
		p.clock = t
		return []Val{scalar(cc.Signature().Results().At(0).Type(), t)}, true
	}}
	models[clockPkg+".Now"] = now
	models["time.Now"] = now

	pure := func(f func(x *Exec, p *Path, cc *ssa.CallCommon, a []Val) []Val) *model {
		return &model{silent: true, fn: func(x *Exec, p *Path, site ssa.Instruction, cc *ssa.CallCommon, args []Val) ([]Val, bool) {
			return f(x, p, cc, args), true
		}}
	}
	loud := func(f func(x *Exec, p *Path, cc *ssa.CallCommon, a []Val) []Val) *model {
		return &model{fn: func(x *Exec, p *Path, site ssa.Instruction, cc *ssa.CallCommon, args []Val) ([]Val, bool) {
			return f(x, p, cc, args), true
		}}
	}
	rt := func(cc *ssa.CallCommon, i int) types.Type { return cc.Signature().Results().At(i).Type() }
	models["(time.Time).UTC"] = pure(func(x *Exec, p *Path, cc *ssa.CallCommon, a []Val) []Val { return []Val{scalar(rt(cc, 0), a[0].S)} })
	models["(time.Time).Local"] = models["(time.Time).UTC"]
	models["(time.Time).Sub"] = pure(func(x *Exec, p *Path, cc *ssa.CallCommon, a []Val) []Val {
		x.e.note("time.Time.Sub without saturation")
		return []Val{scalar(rt(cc, 0), "(- "+a[0].S+" "+a[1].S+")")}
	})
	models["(time.Time).Add"] = pure(func(x *Exec, p *Path, cc *ssa.CallCommon, a []Val) []Val {
		return []Val{scalar(rt(cc, 0), "(+ "+a[0].S+" "+a[1].S+")")}
	})
	models["(time.Time).Before"] = pure(func(x *Exec, p *Path, cc *ssa.CallCommon, a []Val) []Val {
		return []Val{scalar(rt(cc, 0), "(< "+a[0].S+" "+a[1].S+")")}
	})
	models["(time.Time).After"] = pure(func(x *Exec, p *Path, cc *ssa.CallCommon, a []Val) []Val {
		return []Val{scalar(rt(cc, 0), "(> "+a[0].S+" "+a[1].S+")")}
	})
	models["(time.Time).Equal"] = pure(func(x *Exec, p *Path, cc *ssa.CallCommon, a []Val) []Val {
		return []Val{scalar(rt(cc, 0), eq(a[0].S, a[1].S))}
	})
	models["(time.Time).IsZero"] = pure(func(x *Exec, p *Path, cc *ssa.CallCommon, a []Val) []Val {
		return []Val{scalar(rt(cc, 0), eq(a[0].S, zeroTimeNs))}
	})
	models["(time.Time).UnixNano"] = pure(func(x *Exec, p *Path, cc *ssa.CallCommon, a []Val) []Val { return []Val{tInt(a[0].S)} })
	models["(time.Time).Unix"] = pure(func(x *Exec, p *Path, cc *ssa.CallCommon, a []Val) []Val {
		return []Val{tInt("(div " + a[0].S + " 1000000000)")}
	})
	models["(time.Time).Truncate"] = pure(func(x *Exec, p *Path, cc *ssa.CallCommon, a []Val) []Val {
		// rounds down to a multiple of d since the zero time; d <= 0 returns t unchanged
		x.e.note("time.Time.Truncate(d) = t - ((t - zeroTime) mod d) for d > 0")
		t, d := a[0].S, a[1].S
		return []Val{scalar(rt(cc, 0), "(ite (> "+d+" 0) (- "+t+" (mod (- "+t+" "+zeroTimeNs+") "+d+")) "+t+")")}
	})
	models["(time.Duration).Seconds"] = pure(func(x *Exec, p *Path, cc *ssa.CallCommon, a []Val) []Val {
		return []Val{scalar(rt(cc, 0), "(/ (to_real "+a[0].S+") 1000000000.0)")}
	})
	models["(time.Duration).String"] = pure(func(x *Exec, p *Path, cc *ssa.CallCommon, a []Val) []Val {
		fn := "dur_string"
		x.e.ufun(fn, "(Int) "+x.e.strSort())
		return []Val{scalar(rt(cc, 0), "("+fn+" "+a[0].S+")")}
	})
	models["(time.Duration).Nanoseconds"] = pure(func(x *Exec, p *Path, cc *ssa.CallCommon, a []Val) []Val { return []Val{tInt(a[0].S)} })
	models["(time.Duration).Milliseconds"] = pure(func(x *Exec, p *Path, cc *ssa.CallCommon, a []Val) []Val {
		return []Val{tInt(goDiv(a[0].S, "1000000"))}
	})

	newErr := &model{silent: true, fn: func(x *Exec, p *Path, site ssa.Instruction, cc *ssa.CallCommon, args []Val) ([]Val, bool) {
		r := x.e.alloc(p, "err")
		t := cc.Signature().Results().At(0).Type()
		return []Val{{K: KIface, T: t, Tag: x.e.typeID(types.NewPointer(types.Typ[types.Invalid])), S: r}}, true
	}}
	models["errors.New"] = newErr
	models["fmt.Errorf"] = newErr

	freshStr := pure(func(x *Exec, p *Path, cc *ssa.CallCommon, a []Val) []Val {
		return []Val{x.e.freshVal(p, rt(cc, 0), "str")}
	})
	models["fmt.Sprintf"] = freshStr
	models["fmt.Sprint"] = freshStr
	models[oxyMod+"/utils.DumpHTTPRequest"] = freshStr
	models["net/http.StatusText"] = pure(func(x *Exec, p *Path, cc *ssa.CallCommon, a []Val) []Val {
		x.e.ufun("status_text", "(Int) "+x.e.strSort())
		return []Val{scalar(rt(cc, 0), "(status_text "+a[0].S+")")}
	})
	models["errors.Is"] = loud(func(x *Exec, p *Path, cc *ssa.CallCommon, a []Val) []Val {
		x.e.ufun("errors_is", "(Int Int Int Int) Bool")
		x.e.note("errors.Is is an uninterpreted relation on error values")
		return []Val{scalar(rt(cc, 0), "(errors_is "+a[0].Tag+" "+a[0].S+" "+a[1].Tag+" "+a[1].S+")")}
	})
	// net/http.Header as a string-keyed map of string slices; keys are canonicalised by an uninterpreted function.
	canon := func(x *Exec, k string) string {
		x.e.ufun("canon_header", "("+x.e.strSort()+") "+x.e.strSort())
		x.e.note("http.Header keys: textproto.CanonicalMIMEHeaderKey is an uninterpreted idempotent function")
		return "(canon_header " + k + ")"
	}
	hdrType := func(cc *ssa.CallCommon) types.Type { return cc.Args[0].Type() }
	models["(net/http.Header).Set"] = &model{fn: func(x *Exec, p *Path, site ssa.Instruction, cc *ssa.CallCommon, a []Val) ([]Val, bool) {
		e := x.e
		mt := hdrType(cc)
		et := mt.Underlying().(*types.Map).Elem().Underlying().(*types.Slice).Elem()
		arr := e.alloc(p, "hdrval")
		e.storeElem(p, arr, "0", et, a[2])
		x.checkNonNil(p, a[0].S, "header map")
		e.mapStore(p, mt, a[0].S, canon(x, a[1].S), Val{K: KSlice, T: mt.Underlying().(*types.Map).Elem(), S: arr, Off: "0", Len: "1"})
		return nil, true
	}}
	models["(net/http.Header).Add"] = &model{fn: func(x *Exec, p *Path, site ssa.Instruction, cc *ssa.CallCommon, a []Val) ([]Val, bool) {
		e := x.e
		mt := hdrType(cc)
		st := mt.Underlying().(*types.Map).Elem()
		et := st.Underlying().(*types.Slice).Elem()
		k := canon(x, a[1].S)
		old, dom := e.mapLoad(p, nil, mt, a[0].S, k)
		e.assumeRange(p, old)
		oldLen := ite(dom, old.Len, "0")
		arr := e.alloc(p, "hdrval")
		// copy of the old values followed by the new one
		for _, lf := range e.leaves(et) {
			key := elemKey(et, lf.Path)
			srt := arrSort("Int", arrSort("Int", lf.Sort))
			h := e.heapName(p, nil, key, srt)
			na := e.fresh("hdradd", arrSort("Int", lf.Sort))
			p.assume("(forall ((|q:i| Int)) (=> (and (>= |q:i| 0) (< |q:i| " + oldLen + ")) (= (select " + na + " |q:i|) (select (select " + h + " " + old.S + ") (+ " + old.Off + " |q:i|)))))")
			p.assume(eq(sel(na, oldLen), a[2].S))
			e.heapSet(p, key, srt, store(h, arr, na))
		}
		x.checkNonNil(p, a[0].S, "header map")
		e.mapStore(p, mt, a[0].S, k, Val{K: KSlice, T: st, S: arr, Off: "0", Len: "(+ " + oldLen + " 1)"})
		return nil, true
	}}
	models["(net/http.Header).Del"] = &model{fn: func(x *Exec, p *Path, site ssa.Instruction, cc *ssa.CallCommon, a []Val) ([]Val, bool) {
		x.e.mapDelete(p, hdrType(cc), a[0].S, canon(x, a[1].S))
		return nil, true
	}}
	models["(net/http.Header).Get"] = &model{silent: true, fn: func(x *Exec, p *Path, site ssa.Instruction, cc *ssa.CallCommon, a []Val) ([]Val, bool) {
		e := x.e
		mt := hdrType(cc)
		et := mt.Underlying().(*types.Map).Elem().Underlying().(*types.Slice).Elem()
		v, dom := e.mapLoad(p, nil, mt, a[0].S, canon(x, a[1].S))
		e.assumeRange(p, v) // stored header values are allocated slices
		first := e.loadElem(p, nil, v.S, v.Off, et)
		empty := zeroOfSort(e.strSort())
		return []Val{scalar(cc.Signature().Results().At(0).Type(), ite(and(not(eq(a[0].S, "0")), dom, "(> "+v.Len+" 0)"), first.S, empty))}, true
	}}
	// strings (only meaningful when the function under contract uses SMT strings)
	models["strings.SplitN"] = &model{silent: true, fn: func(x *Exec, p *Path, site ssa.Instruction, cc *ssa.CallCommon, a []Val) ([]Val, bool) {
		e := x.e
		t := cc.Signature().Results().At(0).Type()
		if !e.stringMode || a[2].S != "2" {
			return []Val{e.freshVal(p, t, "splitn")}, true
		}
		e.note("strings.SplitN(s, sep, 2): cut at the first occurrence of sep (assumed)")
		s, sep := a[0].S, a[1].S
		has := "(str.contains " + s + " " + sep + ")"
		idx := "(str.indexof " + s + " " + sep + " 0)"
		arr := e.alloc(p, "splitn")
		strT := types.Typ[types.String]
		e.storeElem(p, arr, "0", strT, scalar(strT, ite(has, "(str.substr "+s+" 0 "+idx+")", s)))
		e.storeElem(p, arr, "1", strT, scalar(strT, "(str.substr "+s+" (+ "+idx+" (str.len "+sep+")) (str.len "+s+"))"))
		return []Val{{K: KSlice, T: t, S: arr, Off: "0", Len: ite(has, "2", "1")}}, true
	}}
	models["strings.Split"] = &model{silent: true, fn: func(x *Exec, p *Path, site ssa.Instruction, cc *ssa.CallCommon, a []Val) ([]Val, bool) {
		e := x.e
		t := cc.Signature().Results().At(0).Type()
		if !e.stringMode {
			return []Val{e.freshVal(p, t, "split")}, true
		}
		e.note("strings.Split(s, sep): at least one element; the first is s up to the first occurrence of a non-empty sep (assumed)")
		s, sep := a[0].S, a[1].S
		has := "(str.contains " + s + " " + sep + ")"
		idx := "(str.indexof " + s + " " + sep + " 0)"
		arr := e.alloc(p, "split")
		strT := types.Typ[types.String]
		n := e.fresh("splitlen", "Int")
		p.assume("(>= " + n + " 1)")
		p.assume("(= (= " + n + " 1) (not " + has + "))")
		x.oblige(p, "model", "split_separator_nonempty", not(eq(sep, "\"\"")), nil, "strings.Split model needs a non-empty separator")
		e.storeElem(p, arr, "0", strT, scalar(strT, ite(has, "(str.substr "+s+" 0 "+idx+")", s)))
		return []Val{{K: KSlice, T: t, S: arr, Off: "0", Len: n}}, true
	}}
	models["strings.HasPrefix"] = pure(func(x *Exec, p *Path, cc *ssa.CallCommon, a []Val) []Val {
		if !x.e.stringMode {
			return []Val{x.e.freshVal(p, rt(cc, 0), "hasprefix")}
		}
		return []Val{scalar(rt(cc, 0), "(str.prefixof "+a[1].S+" "+a[0].S+")")}
	})
	models["strings.TrimPrefix"] = pure(func(x *Exec, p *Path, cc *ssa.CallCommon, a []Val) []Val {
		if !x.e.stringMode {
			return []Val{x.e.freshVal(p, rt(cc, 0), "trimprefix")}
		}
		s, pre := a[0].S, a[1].S
		return []Val{scalar(rt(cc, 0), ite("(str.prefixof "+pre+" "+s+")", "(str.substr "+s+" (str.len "+pre+") (str.len "+s+"))", s))}
	})
	models["strings.Contains"] = pure(func(x *Exec, p *Path, cc *ssa.CallCommon, a []Val) []Val {
		if !x.e.stringMode {
			return []Val{x.e.freshVal(p, rt(cc, 0), "contains")}
		}
		return []Val{scalar(rt(cc, 0), "(str.contains "+a[0].S+" "+a[1].S+")")}
	})
	models["math.Abs"] = pure(func(x *Exec, p *Path, cc *ssa.CallCommon, a []Val) []Val {
		x.e.note("float64 modelled as real: math.Abs is the real absolute value")
		return []Val{scalar(rt(cc, 0), ite("(>= "+a[0].S+" 0.0)", a[0].S, "(- "+a[0].S+")"))}
	})
	models["math.IsNaN"] = pure(func(x *Exec, p *Path, cc *ssa.CallCommon, a []Val) []Val {
		x.e.note("float64 modelled as real: NaN does not occur")
		return []Val{scalar(rt(cc, 0), "false")}
	})
}

// isPureExternal: functions outside oxy that neither touch oxy state nor panic for our purposes.
func (x *Exec) isPureExternal(f *ssa.Function) bool {
	if f.Pkg == nil {
		return false
	}
	switch f.String() {
	case "(*net/http.Request).Cookie", "(*net/http.Request).Cookies", "(*net/http.Request).Context", "(net/http.Header).Values":
		x.e.note("pure external function " + f.String() + ": result unconstrained")
		return true
	}
	switch f.Pkg.Pkg.Path() {
	case "strings", "strconv", "fmt", "errors", "net/url", "unicode", "unicode/utf8", "math", "sort", "bytes", "net", "encoding/base64", "encoding/hex", "time", "net/textproto", "hash/fnv", "github.com/segmentio/fasthash/fnv1a", "path":
		x.e.note("pure external function " + f.String() + ": result unconstrained")
		return true
	}
	return false
}

func (x *Exec) postExternalPure(p *Path, f *ssa.Function, args, res []Val) {}

func (x *Exec) builtin(p *Path, b *ssa.Builtin, cc *ssa.CallCommon, args []Val) Val {
	e := x.e
	rt := cc.Signature().Results()
	var t types.Type
	if rt.Len() > 0 {
		t = rt.At(0).Type()
	}
	switch b.Name() {
	case "len":
		a := args[0]
		switch a.K {
		case KSlice:
			return scalar(t, a.Len)
		case KScalar:
			if _, ok := cc.Args[0].Type().Underlying().(*types.Map); ok {
				return scalar(t, ite(eq(a.S, "0"), "0", e.mapLen(p, nil, cc.Args[0].Type(), a.S)))
			}
			if e.stringMode {
				return scalar(t, "(str.len "+a.S+")")
			}
			e.ufun("strlen", "(Str) Int")
			p.assume("(>= (strlen " + a.S + ") 0)")
			return scalar(t, "(strlen "+a.S+")")
		}
	case "cap":
		a := args[0]
		c := e.fresh("cap", "Int")
		if a.K == KSlice {
			p.assume("(>= " + c + " " + a.Len + ")")
		}
		return scalar(t, c)
	case "delete":
		m := args[0]
		x.guardCheckMap(p, m, true, nil)
		x.insertOnlyCheck(p, cc.Args[0].Type(), m, args[1], nil)
		e.mapDelete(p, cc.Args[0].Type(), m.S, args[1].S)
		return Val{K: KTuple}
	case "append":
		return x.appendOp(p, cc, args)
	case "copy":
		return x.copyOp(p, cc, args)
	case "min", "max":
		r := args[0].S
		for _, a := range args[1:] {
			if b.Name() == "min" {
				r = "(ite (<= " + r + " " + a.S + ") " + r + " " + a.S + ")"
			} else {
				r = "(ite (>= " + r + " " + a.S + ") " + r + " " + a.S + ")"
			}
		}
		return scalar(t, r)
	case "recover":
		if p.panicking && !p.recovered {
			// the value of the current panic: some non-nil interface value; the panic stops here
			v := e.freshVal(p, t, "recovered")
			if v.K == KIface {
				p.assume("(> " + v.Tag + " 0)")
			}
			p.recovered = true
			return v
		}
		return e.zeroVal(t)
	case "print", "println":
		return Val{K: KTuple}
	}
	x.errorf("unsupported builtin %s", b.Name())
	p.dead = true
	return Val{}
}

func (x *Exec) appendOp(p *Path, cc *ssa.CallCommon, args []Val) Val {
	e := x.e
	s1, s2 := args[0], args[1]
	st := cc.Signature().Results().At(0).Type()
	sl, ok := st.Underlying().(*types.Slice)
	if !ok || s1.K != KSlice {
		x.errorf("append: unsupported operands")
		p.dead = true
		return Val{}
	}
	et := sl.Elem()
	var r string
	if s1.S == "0" || s1.Off != "0" {
		// a nil slice has no capacity: append allocates. (A first operand at a non-zero offset is modelled as
		// reallocating too: the result is kept at offset 0.)
		r = e.alloc(p, "append")
	} else {
		// capacity is not tracked: the result either re-uses the backing array of the first operand (in place) or is
		// a new array; nothing may be concluded from assuming one of the two
		r = e.fresh("append", "Int")
		nb := e.fresh("brk", "Int")
		p.assume("(and (> " + r + " 0) (or (= " + r + " " + s1.S + ") (= " + r + " " + p.brk + ")) (= " + nb + " (+ " + p.brk + " 1)))")
		p.brk = nb
		p.nonnil[r] = true
		e.note("append: capacity is not tracked, the result may or may not share the first operand's backing array")
	}
	newLen := "(+ " + s1.Len + " " + s2.Len + ")"
	if s2.K != KSlice {
		// append([]byte, string...)
		e.note("append of a string to a byte slice: contents unconstrained")
		return Val{K: KSlice, T: st, S: r, Off: "0", Len: e.fresh("len", "Int")}
	}
	for _, lf := range e.leaves(et) {
		k := elemKey(et, lf.Path)
		srt := arrSort("Int", arrSort("Int", lf.Sort))
		a := e.heapName(p, nil, k, srt)
		na := e.fresh("appended", arrSort("Int", lf.Sort))
		// contents of the result
		if isNonNegLit(s2.Len) && atoi(s2.Len) <= 4 && s1.Off == "0" {
			term := sel(a, s1.S)
			for j := 0; j < atoi(s2.Len); j++ {
				src := sel(sel(a, s2.S), addC(s2.Off, j))
				term = store(term, "(+ "+s1.Len+" "+fmt.Sprint(j)+")", src)
			}
			p.assume(eq(na, term))
		} else {
			p.assume("(forall ((|q:i| Int)) (=> (and (>= |q:i| 0) (< |q:i| " + s1.Len + ")) (= (select " + na + " |q:i|) (select (select " + a + " " + s1.S + ") (+ " + s1.Off + " |q:i|)))))")
			p.assume("(forall ((|q:i| Int)) (=> (and (>= |q:i| " + s1.Len + ") (< |q:i| " + newLen + ")) (= (select " + na + " |q:i|) (select (select " + a + " " + s2.S + ") (+ " + s2.Off + " (- |q:i| " + s1.Len + "))))))")
		}
		// the old backing array of s1 may have been overwritten in place beyond its length: forget its tail
		old1 := e.fresh("oldback", arrSort("Int", lf.Sort))
		p.assume("(forall ((|q:i| Int)) (=> (and (>= |q:i| 0) (< |q:i| (+ " + s1.Off + " " + s1.Len + "))) (= (select " + old1 + " |q:i|) (select (select " + a + " " + s1.S + ") |q:i|))))")
		e.heapSet(p, k, srt, store(store(a, s1.S, old1), r, na))
	}
	return Val{K: KSlice, T: st, S: r, Off: "0", Len: newLen}
}

func addC(t string, j int) string {
	if j == 0 {
		return t
	}
	if isNonNegLit(t) {
		return fmt.Sprint(atoi(t) + j)
	}
	return "(+ " + t + " " + fmt.Sprint(j) + ")"
}

func (x *Exec) copyOp(p *Path, cc *ssa.CallCommon, args []Val) Val {
	e := x.e
	dst, src := args[0], args[1]
	t := cc.Signature().Results().At(0).Type()
	if dst.K != KSlice || src.K != KSlice {
		e.note("copy with non-slice operand: contents unconstrained")
		return e.freshVal(p, t, "copied")
	}
	et := dst.T.Underlying().(*types.Slice).Elem()
	n := "(ite (<= " + dst.Len + " " + src.Len + ") " + dst.Len + " " + src.Len + ")"
	for _, lf := range e.leaves(et) {
		k := elemKey(et, lf.Path)
		srt := arrSort("Int", arrSort("Int", lf.Sort))
		a := e.heapName(p, nil, k, srt)
		na := e.fresh("copied", arrSort("Int", lf.Sort))
		p.assume("(forall ((|q:i| Int)) (= (select " + na + " |q:i|) (ite (and (>= |q:i| " + dst.Off + ") (< |q:i| (+ " + dst.Off + " " + n + "))) (select (select " + a + " " + src.S + ") (+ " + src.Off + " (- |q:i| " + dst.Off + "))) (select (select " + a + " " + dst.S + ") |q:i|))))")
		e.heapSet(p, k, srt, store(a, dst.S, na))
	}
	return scalar(t, n)
}
