package main

import (
	"encoding/json"
	"flag"
	"fmt"
	"os"
	"sort"
	"strings"
	"time"
)

func main() {
	if len(os.Args) < 2 {
		fmt.Fprintln(os.Stderr, "usage: goverif (func|prop|dump) ...")
		os.Exit(2)
	}
	switch os.Args[1] {
	case "locals":
		cmdLocals(os.Args[2:])
	case "func":
		cmdFunc(os.Args[2:])
	case "prop":
		cmdProp(os.Args[2:])
	case "dump":
		cmdDump(os.Args[2:])
	case "replay":
		cmdReplay(os.Args[2:])
	default:
		fmt.Fprintln(os.Stderr, "unknown command", os.Args[1])
		os.Exit(2)
	}
}

func pkgPatterns(e []string) []string {
	if len(e) > 0 {
		return e
	}
	return []string{"./..."}
}

// VerifyFunction runs the executor on one function and renders the scripts.
func (e *Engine) VerifyFunction(key string) (*Exec, error) {
	fn := e.funcs[key]
	if fn == nil {
		return nil, fmt.Errorf("no function %s", key)
	}
	fc := e.cs.Funcs[key]
	e.newRun(fc != nil && fc.Strings)
	x := &Exec{e: e, fn: fn, fc: fc, maxPaths: 4000, loops: map[*ssaFunction]map[*ssaBlock]*Loop{}}
	func() {
		defer func() {
			if r := recover(); r != nil {
				if ee, ok := r.(evalErr); ok {
					x.errorf("evaluation: %s", ee.msg)
					return
				}
				panic(r)
			}
		}()
		x.Verify()
	}()
	for _, ob := range x.obs {
		ob.Script = e.script(ob)
	}
	return x, nil
}

func cmdFunc(args []string) {
	fs := flag.NewFlagSet("func", flag.ExitOnError)
	repo := fs.String("repo", "/repo", "repository root")
	keep := fs.String("keep", "", "directory to keep SMT scripts in")
	verbose := fs.Bool("v", false, "print failing scripts")
	timeout := fs.Int("t", 10, "solver timeout (s)")
	fs.Parse(args)
	e, err := LoadEngine(*repo, []string{"./..."})
	if err != nil {
		fmt.Fprintln(os.Stderr, err)
		os.Exit(2)
	}
	var keys []string
	for k := range e.funcs {
		for _, pat := range fs.Args() {
			if strings.HasSuffix(k, pat) || strings.Contains(k, pat) {
				keys = append(keys, k)
			}
		}
	}
	sort.Strings(keys)
	scratch := *keep
	if scratch == "" {
		scratch, _ = os.MkdirTemp("", "goverif")
		defer os.RemoveAll(scratch)
	} else {
		os.MkdirAll(scratch, 0o755)
	}
	bad := 0
	for _, k := range keys {
		t0 := time.Now()
		x, err := e.VerifyFunction(k)
		if err != nil {
			fmt.Println(err)
			continue
		}
		e.Discharge(x.obs, scratch, 3, *timeout, 8)
		fmt.Printf("== %s: %d obligations, %d paths, %.1fs\n", shortTypeKey(k), len(x.obs), x.npaths, time.Since(t0).Seconds())
		for _, er := range x.errs {
			fmt.Println("   ERROR:", er)
			bad++
		}
		for _, ob := range x.obs {
			ok := ob.Result == "unsat"
			if ob.Cover {
				ok = ob.Result != "unsat" || !strings.HasSuffix(ob.Name, "requires_sat")
			}
			mark := "ok  "
			if !ok {
				mark = "FAIL"
				bad++
			}
			fmt.Printf("   %s %-70s %-7s %-6s %.2fs p%d\n", mark, ob.Name, ob.Result, ob.Solver, ob.TimeS, ob.PathID)
			if !ok {
				fmt.Printf("        src: %s\n        trace: %s\n", ob.Src, strings.Join(ob.Trace, " "))
				if ob.Model != "" {
					fmt.Printf("        model: %s\n", strings.ReplaceAll(strings.TrimSpace(ob.Model), "\n", " "))
				}
				if *verbose {
					fmt.Println(ob.Script)
				}
			}
		}
	}
	if bad > 0 {
		os.Exit(1)
	}
}

func cmdDump(args []string) {
	e, err := LoadEngine("/repo", []string{"./..."})
	if err != nil {
		fmt.Fprintln(os.Stderr, err)
		os.Exit(2)
	}
	var keys []string
	for k := range e.funcs {
		for _, pat := range args {
			if strings.Contains(k, pat) {
				keys = append(keys, k)
			}
		}
	}
	sort.Strings(keys)
	for _, k := range keys {
		e.funcs[k].WriteTo(os.Stdout)
	}
}

// cmdReplay prints a stored replay file and re-runs its harness command, if any, against /repo.
func cmdReplay(args []string) {
	fs := flag.NewFlagSet("replay", flag.ExitOnError)
	id := fs.String("id", "", "property id")
	file := fs.String("file", "", "replay file")
	repo := fs.String("repo", "/repo", "repository root")
	verif := fs.String("verif", "/verif", "verif root")
	fs.Parse(args)
	b, err := os.ReadFile(*file)
	if err != nil {
		fmt.Fprintln(os.Stderr, err)
		os.Exit(2)
	}
	var info map[string]interface{}
	if err := json.Unmarshal(b, &info); err != nil {
		fmt.Fprintln(os.Stderr, err)
		os.Exit(2)
	}
	fmt.Printf("property: %v\nobligation: %v\nclause: %v\nsolver: %v -> %v\n", info["property"], info["obligation"], info["clause"], info["solver"], info["solver_result"])
	name, _ := info["obligation"].(string)
	ob := &Obligation{Name: name, Inputs: map[string]string{}}
	if mi, ok := info["model_inputs"].(map[string]interface{}); ok {
		var sb strings.Builder
		sb.WriteString("sat\n(")
		for k, v := range mi {
			ob.Inputs[k] = "|" + k + "|"
			fmt.Fprintf(&sb, "(|%s| %v)", k, v)
		}
		sb.WriteString(")")
		ob.Model = sb.String()
	}
	e := &Engine{repo: *repo}
	out, failed := e.tryReplay(ob, *id, *repo, *verif, *file+".rerun")
	os.Remove(*file + ".rerun")
	if failed {
		fmt.Println(out)
		fmt.Printf("VIOLATION property=%s replay=%s\n", *id, *file)
		os.Exit(1)
	}
	fmt.Println("replay did not fail on the current tree")
}
