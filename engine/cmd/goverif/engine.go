package main

import (
	"path/filepath"
	"fmt"
	"go/types"
	"os"
	"sort"
	"strings"
	"sync"

	"golang.org/x/tools/go/packages"
	"golang.org/x/tools/go/ssa"
	"golang.org/x/tools/go/ssa/ssautil"
)

const oxyMod = "github.com/vulcand/oxy/v2"

type Engine struct {
	repo  string
	prog  *ssa.Program
	pkgs  map[string]*ssa.Package // by path
	ppkgs map[string]*packages.Package
	cs    *Contracts
	mu    sync.Mutex
	funcs map[string]*ssa.Function // key pkgpath.Name (SSA relative string)

	recorded    map[string]*funcLocals             // /verif/locals.json: names the contracts were written against
	renameCache map[*ssa.Function]map[string]string // recorded name -> current name

	// per function-run symbol tables (reset by newRun)
	stringMode    bool
	strLits       map[string]string
	decls         map[string]string // symbol -> sort
	declOrder     []string
	ufuns         map[string]string // name -> declaration line
	ufunOrder     []string
	counter       int
	qcounter      int
	typeIDs       map[string]int
	typeIDName    []string
	keySort       map[string]string
	globalsRO     map[string]bool
	mayPanicMemo  map[*ssa.Function]int
	trusted       map[string]bool // trusted-base notes collected during the run
	allocated     map[string]bool
	stableContent map[string]bool
}

func LoadEngine(repo string, patterns []string) (*Engine, error) {
	cfg := &packages.Config{Mode: packages.LoadAllSyntax, Dir: repo, BuildFlags: []string{"-tags=verif"}, Env: append(os.Environ(), "GOFLAGS=-mod=mod", "GOPROXY=off", "GOSUMDB=off", "GOTOOLCHAIN=local")}
	pkgs, err := packages.Load(cfg, patterns...)
	if err != nil {
		return nil, err
	}
	nerr := 0
	packages.Visit(pkgs, nil, func(p *packages.Package) {
		if strings.HasPrefix(p.PkgPath, oxyMod) {
			for _, e := range p.Errors {
				fmt.Fprintf(os.Stderr, "load error: %v\n", e)
				nerr++
			}
		}
	})
	if nerr > 0 {
		return nil, fmt.Errorf("%d errors loading packages", nerr)
	}
	prog, _ := ssautil.AllPackages(pkgs, ssa.GlobalDebug)
	prog.Build()
	e := &Engine{repo: repo, prog: prog, pkgs: map[string]*ssa.Package{}, ppkgs: map[string]*packages.Package{}, funcs: map[string]*ssa.Function{}}
	for _, p := range prog.AllPackages() {
		e.pkgs[p.Pkg.Path()] = p
	}
	packages.Visit(pkgs, nil, func(p *packages.Package) { e.ppkgs[p.PkgPath] = p })
	// index functions of oxy packages by SSA relative name
	for path, p := range e.pkgs {
		if !strings.HasPrefix(path, oxyMod) {
			continue
		}
		for _, m := range p.Members {
			switch m := m.(type) {
			case *ssa.Function:
				e.indexFunc(path, m)
			case *ssa.Type:
				for _, t := range []types.Type{m.Type(), types.NewPointer(m.Type())} {
					ms := prog.MethodSets.MethodSet(t)
					for i := 0; i < ms.Len(); i++ {
						f := prog.MethodValue(ms.At(i))
						if f != nil && f.Pkg == p && f.Synthetic == "" {
							e.indexFunc(path, f)
						}
					}
				}
			}
		}
	}
	// contracts
	e.cs = NewContracts()
	files, err := FindContractFiles(repo)
	if err != nil {
		return nil, err
	}
	sort.Strings(files)
	for _, f := range files {
		rel := strings.TrimPrefix(strings.TrimPrefix(f, repo), "/")
		dir := ""
		if i := strings.LastIndex(rel, "/"); i >= 0 {
			dir = rel[:i]
		}
		pkg := oxyMod
		if dir != "" {
			pkg += "/" + dir
		}
		if err := e.cs.LoadContractFile(f, pkg); err != nil {
			return nil, err
		}
	}
	e.findReadOnlyGlobals()
	lp := os.Getenv("VERIF_LOCALS")
	if lp == "" {
		if exe, err := os.Executable(); err == nil {
			lp = filepath.Join(filepath.Dir(filepath.Dir(exe)), "locals.json")
		}
	}
	e.loadLocals(lp)
	return e, nil
}

func (e *Engine) indexFunc(path string, f *ssa.Function) {
	name := f.RelString(f.Pkg.Pkg)
	e.funcs[path+"."+name] = f
	for _, a := range f.AnonFuncs {
		e.indexAnon(path, a)
	}
}

func (e *Engine) indexAnon(path string, f *ssa.Function) {
	e.funcs[path+"."+f.RelString(f.Pkg.Pkg)] = f
	for _, a := range f.AnonFuncs {
		e.indexAnon(path, a)
	}
}

func (e *Engine) funcKey(f *ssa.Function) string {
	if f.Pkg == nil {
		if f.Parent() != nil {
			return e.funcKey(f.Parent()) + "$?"
		}
		return f.String()
	}
	return f.Pkg.Pkg.Path() + "." + f.RelString(f.Pkg.Pkg)
}

func (e *Engine) contractOf(f *ssa.Function) *FuncContract {
	if f == nil {
		return nil
	}
	return e.cs.Funcs[e.funcKey(f)]
}

// findReadOnlyGlobals marks package-level variables of oxy that are never stored to outside init.
func (e *Engine) findReadOnlyGlobals() {
	written := map[string]bool{}
	for path, p := range e.pkgs {
		if !strings.HasPrefix(path, oxyMod) {
			continue
		}
		var visit func(f *ssa.Function)
		visit = func(f *ssa.Function) {
			if f.Name() != "init" {
				for _, b := range f.Blocks {
					for _, in := range b.Instrs {
						if st, ok := in.(*ssa.Store); ok {
							if g, ok := st.Addr.(*ssa.Global); ok {
								written[g.Pkg.Pkg.Path()+"."+g.Name()] = true
							}
						}
					}
				}
			}
			for _, a := range f.AnonFuncs {
				visit(a)
			}
		}
		for _, m := range p.Members {
			if f, ok := m.(*ssa.Function); ok {
				visit(f)
			}
		}
	}
	for _, f := range e.funcs {
		for _, b := range f.Blocks {
			for _, in := range b.Instrs {
				if st, ok := in.(*ssa.Store); ok {
					if g, ok := st.Addr.(*ssa.Global); ok && f.Name() != "init" {
						written[g.Pkg.Pkg.Path()+"."+g.Name()] = true
					}
				}
			}
		}
	}
	e.globalsRO = map[string]bool{}
	for path, p := range e.pkgs {
		for _, m := range p.Members {
			if g, ok := m.(*ssa.Global); ok {
				k := path + "." + g.Name()
				if !written[k] {
					e.globalsRO[k] = true
				}
			}
		}
	}
}

// newRun resets the symbol tables; called once per verified function.
func (e *Engine) newRun(stringMode bool) {
	e.stringMode = stringMode
	e.strLits = map[string]string{}
	e.decls = map[string]string{}
	e.declOrder = nil
	e.ufuns = map[string]string{}
	e.ufunOrder = nil
	e.counter = 0
	e.qcounter = 0
	e.typeIDs = map[string]int{}
	e.typeIDName = nil
	e.keySort = map[string]string{}
	e.trusted = map[string]bool{}
	e.allocated = map[string]bool{}
}

func (e *Engine) declare(name, sort string) {
	if _, ok := e.decls[name]; ok {
		return
	}
	e.decls[name] = sort
	e.declOrder = append(e.declOrder, name)
}

func (e *Engine) fresh(hint, sort string) string {
	e.counter++
	n := fmt.Sprintf("|%s#%d|", sanitizeSym(hint), e.counter)
	e.declare(n, sort)
	return n
}

func sanitizeSym(s string) string {
	s = strings.ReplaceAll(s, "|", "_")
	s = strings.ReplaceAll(s, "\\", "_")
	return shortTypeKey(s)
}

func (e *Engine) ufun(name, sig string) {
	if _, ok := e.ufuns[name]; ok {
		return
	}
	e.ufuns[name] = "(declare-fun " + name + " " + sig + ")"
	e.ufunOrder = append(e.ufunOrder, name)
}

func (e *Engine) typeID(t types.Type) string {
	k := types.TypeString(t, nil)
	if id, ok := e.typeIDs[k]; ok {
		return fmt.Sprint(id)
	}
	id := len(e.typeIDs) + 1
	e.typeIDs[k] = id
	e.typeIDName = append(e.typeIDName, k)
	return fmt.Sprint(id)
}

func (e *Engine) note(s string) {
	e.trusted[s] = true
}

// ---- heap ------------------------------------------------------------------

func arrSort(idx, elem string) string { return "(Array " + idx + " " + elem + ")" }

// heapName returns the symbol for key in the given state (current path if snap==nil).
func (e *Engine) heapName(p *Path, snap *Snap, key, sort string) string {
	if s, ok := e.keySort[key]; ok && s != sort {
		panic(fmt.Sprintf("heap key %s used with sorts %s and %s", key, s, sort))
	}
	e.keySort[key] = sort
	if snap != nil {
		if n, ok := snap.heap[key]; ok {
			return n
		}
		n := fmt.Sprintf("|%s@e%d|", sanitizeSym(key), snap.epoch)
		if e.keepOnHavoc(key) {
			n = fmt.Sprintf("|%s@imm|", sanitizeSym(key))
		}
		e.declare(n, sort)
		if p != nil && p.epoch == snap.epoch {
			if _, ok := p.heap[key]; !ok {
				p.heap[key] = n
			}
		}
		return n
	}
	if n, ok := p.heap[key]; ok {
		return n
	}
	n := fmt.Sprintf("|%s@e%d|", sanitizeSym(key), p.epoch)
	if e.keepOnHavoc(key) {
		n = fmt.Sprintf("|%s@imm|", sanitizeSym(key))
	}
	e.declare(n, sort)
	p.heap[key] = n
	return n
}

func (e *Engine) heapSet(p *Path, key, sort, term string) {
	e.keySort[key] = sort
	n := e.fresh(key, sort)
	p.assume(eq(n, term))
	p.heap[key] = n
}

func (e *Engine) heapHavoc(p *Path, key string) {
	sort, ok := e.keySort[key]
	if !ok {
		delete(p.heap, key)
		return
	}
	// make sure the pre-havoc name exists so that snapshots taken earlier keep referring to it
	e.heapName(p, nil, key, sort)
	p.heap[key] = e.fresh(key, sort)
}

// key builders
func fieldKey(tkey, field, leaf string) string { return "F:" + tkey + "." + field + leaf }
func elemKey(et types.Type, leaf string) string {
	return "E:" + types.TypeString(et, nil) + leaf
}
func mapKeyBase(mt types.Type) string {
	return types.TypeString(mt.Underlying(), nil)
}

func (e *Engine) loadField(p *Path, snap *Snap, obj, tkey, field string, ft types.Type) Val {
	var ts []string
	for _, l := range e.leaves(ft) {
		a := e.heapName(p, snap, fieldKey(tkey, field, l.Path), arrSort("Int", l.Sort))
		ts = append(ts, sel(a, obj))
	}
	v := e.unflatten(ft, &ts)
	v.Own = &Owner{Obj: obj, TKey: tkey, Field: field}
	if v.K == KSlice {
		// representation invariant of the heap model: slices stored in struct fields start at offset 0
		// (checked at every store into a field, see Exec.step Store)
		v.Off = "0"
	}
	return v
}

func (e *Engine) storeField(p *Path, obj, tkey, field string, ft types.Type, v Val) {
	ts := e.flatten(v)
	ls := e.leaves(ft)
	if len(ts) != len(ls) {
		panic(fmt.Sprintf("storeField %s.%s: %d terms for %d leaves", tkey, field, len(ts), len(ls)))
	}
	for i, l := range ls {
		k := fieldKey(tkey, field, l.Path)
		srt := arrSort("Int", l.Sort)
		a := e.heapName(p, nil, k, srt)
		e.heapSet(p, k, srt, store(a, obj, ts[i]))
	}
}

func (e *Engine) loadElem(p *Path, snap *Snap, arr, idx string, et types.Type) Val {
	var ts []string
	for _, l := range e.leaves(et) {
		a := e.heapName(p, snap, elemKey(et, l.Path), arrSort("Int", arrSort("Int", l.Sort)))
		ts = append(ts, sel(sel(a, arr), idx))
	}
	return e.unflatten(et, &ts)
}

func (e *Engine) storeElem(p *Path, arr, idx string, et types.Type, v Val) {
	ts := e.flatten(v)
	for i, l := range e.leaves(et) {
		k := elemKey(et, l.Path)
		srt := arrSort("Int", arrSort("Int", l.Sort))
		a := e.heapName(p, nil, k, srt)
		e.heapSet(p, k, srt, store(a, arr, store(sel(a, arr), idx, ts[i])))
	}
}

// maps
func (e *Engine) mapSorts(mt *types.Map) (ks string) { return e.sortOf(mt.Key()) }

func (e *Engine) mapDom(p *Path, snap *Snap, mt types.Type, m string) string {
	mm := mt.Underlying().(*types.Map)
	a := e.heapName(p, snap, "MD:"+mapKeyBase(mt), arrSort("Int", arrSort(e.sortOf(mm.Key()), "Bool")))
	return sel(a, m)
}

func (e *Engine) mapLen(p *Path, snap *Snap, mt types.Type, m string) string {
	a := e.heapName(p, snap, "ML:"+mapKeyBase(mt), arrSort("Int", "Int"))
	return sel(a, m)
}

func (e *Engine) mapLoad(p *Path, snap *Snap, mt types.Type, m, k string) (Val, string) {
	return e.mapLoadX(p, snap, mt, m, k, false)
}

// mapLoadX: raw=true returns the stored value without the zero default for absent keys
// (used where the key is known to be present, and in specifications for reference-valued maps).
func (e *Engine) mapLoadX(p *Path, snap *Snap, mt types.Type, m, k string, raw bool) (Val, string) {
	mm := mt.Underlying().(*types.Map)
	ks := e.sortOf(mm.Key())
	dom := sel(e.mapDom(p, snap, mt, m), k)
	var ts []string
	for _, l := range e.leaves(mm.Elem()) {
		a := e.heapName(p, snap, "M:"+mapKeyBase(mt)+l.Path, arrSort("Int", arrSort(ks, l.Sort)))
		if raw {
			ts = append(ts, sel(sel(a, m), k))
		} else {
			ts = append(ts, ite(dom, sel(sel(a, m), k), zeroOfSort(l.Sort)))
		}
	}
	return e.unflatten(mm.Elem(), &ts), dom
}

func refValued(t types.Type) bool {
	switch t.Underlying().(type) {
	case *types.Pointer, *types.Map, *types.Slice, *types.Interface, *types.Signature:
		return true
	}
	return false
}

func (e *Engine) mapStore(p *Path, mt types.Type, m, k string, v Val) {
	mm := mt.Underlying().(*types.Map)
	ks := e.sortOf(mm.Key())
	ts := e.flatten(v)
	for i, l := range e.leaves(mm.Elem()) {
		key := "M:" + mapKeyBase(mt) + l.Path
		srt := arrSort("Int", arrSort(ks, l.Sort))
		a := e.heapName(p, nil, key, srt)
		e.heapSet(p, key, srt, store(a, m, store(sel(a, m), k, ts[i])))
	}
	dk := "MD:" + mapKeyBase(mt)
	dsrt := arrSort("Int", arrSort(ks, "Bool"))
	d := e.heapName(p, nil, dk, dsrt)
	was := sel(sel(d, m), k)
	lk := "ML:" + mapKeyBase(mt)
	la := e.heapName(p, nil, lk, arrSort("Int", "Int"))
	e.heapSet(p, lk, arrSort("Int", "Int"), store(la, m, "(+ "+sel(la, m)+" "+ite(was, "0", "1")+")"))
	e.heapSet(p, dk, dsrt, store(d, m, store(sel(d, m), k, "true")))
}

func (e *Engine) mapDelete(p *Path, mt types.Type, m, k string) {
	mm := mt.Underlying().(*types.Map)
	ks := e.sortOf(mm.Key())
	dk := "MD:" + mapKeyBase(mt)
	dsrt := arrSort("Int", arrSort(ks, "Bool"))
	d := e.heapName(p, nil, dk, dsrt)
	was := sel(sel(d, m), k)
	lk := "ML:" + mapKeyBase(mt)
	la := e.heapName(p, nil, lk, arrSort("Int", "Int"))
	e.heapSet(p, lk, arrSort("Int", "Int"), store(la, m, "(- "+sel(la, m)+" "+ite(was, "1", "0")+")"))
	e.heapSet(p, dk, dsrt, store(d, m, store(sel(d, m), k, "false")))
}

// typeContract returns the type contract for a type key, if any.
func (e *Engine) typeContract(tkey string) *TypeContract { return e.cs.Types[tkey] }

func (e *Engine) isImmutableField(tkey, field string) bool {
	if tc := e.cs.Types[tkey]; tc != nil {
		return tc.Immutable[field]
	}
	return false
}

// havocAll forgets everything in the heap except immutable fields, thread-local ghosts and read-only globals.
func (e *Engine) havocAll(p *Path) {
	keep := map[string]string{}
	for k, v := range p.heap {
		if e.keepOnHavoc(k) {
			keep[k] = v
		}
	}
	// keys never touched on this path but immutable must keep the same base name across epochs:
	// achieved by not putting the epoch in their name -> see heapName: we pre-touch them lazily.
	e.counter++
	p.epoch = e.counter
	p.heap = keep
	for c := range p.escaped {
		if v, ok := p.cells[c]; ok {
			p.cells[c] = e.freshVal(p, v.T, "esc")
		}
	}
}

// stableContentKeys: contents of map/slice-typed fields declared `stable` are kept across arbitrary calls too.
func (e *Engine) stableContentKeys() map[string]bool {
	if e.stableContent != nil {
		return e.stableContent
	}
	out := map[string]bool{}
	for tk, tc := range e.cs.Types {
		i := strings.LastIndex(tk, ".")
		if i < 0 {
			continue
		}
		p := e.pkgs[tk[:i]]
		if p == nil {
			continue
		}
		o := p.Pkg.Scope().Lookup(tk[i+1:])
		if o == nil {
			continue
		}
		st, ok := o.Type().Underlying().(*types.Struct)
		if !ok {
			continue
		}
		for j := 0; j < st.NumFields(); j++ {
			f := st.Field(j)
			if !tc.Stable[f.Name()] {
				continue
			}
			switch u := f.Type().Underlying().(type) {
			case *types.Map:
				for _, lf := range e.leaves(u.Elem()) {
					out["M:"+mapKeyBase(f.Type())+lf.Path] = true
				}
				out["MD:"+mapKeyBase(f.Type())] = true
				out["ML:"+mapKeyBase(f.Type())] = true
			case *types.Slice:
				for _, lf := range e.leaves(u.Elem()) {
					out[elemKey(u.Elem(), lf.Path)] = true
				}
			}
		}
	}
	for _, sk := range e.cs.StableKeys {
		x := &Exec{e: e}
		ctx := &EvalCtx{x: x, pkg: sk[0]}
		func() {
			defer func() { recover() }()
			for _, kk := range ctx.readKeys(sk[1]) {
				out[kk[0]] = true
			}
		}()
	}
	e.stableContent = out
	return out
}

func (e *Engine) keepOnHavoc(key string) bool {
	if e.stableContentKeys()[key] {
		return true
	}
	switch {
	case strings.HasPrefix(key, "F:"):
		rest := key[2:]
		// F:<tkey>.<field><leaf>; field has no dots, leaf starts with '.'
		for tk, tc := range e.cs.Types {
			if strings.HasPrefix(rest, tk+".") {
				f := rest[len(tk)+1:]
				if i := strings.Index(f, "."); i >= 0 {
					f = f[:i]
				}
				if tc.Immutable[f] || tc.Stable[f] {
					return true
				}
				if g := tc.Ghost[f]; g != nil && g.ThreadLocal {
					return true
				}
			}
		}
	case strings.HasPrefix(key, "G:"):
		name := key[2:]
		if i := strings.Index(name, "#"); i >= 0 {
			name = name[:i]
		}
		if e.globalsRO[name] {
			return true
		}
		// leaf components: G:pkg.Name.tag, .val, .arr ...
		for {
			i := strings.LastIndex(name, ".")
			if i < 0 {
				return false
			}
			name = name[:i]
			if e.globalsRO[name] {
				return true
			}
		}
	}
	return false
}

// freshVal creates an unconstrained value of type t with type-range assumptions.
func (e *Engine) freshVal(p *Path, t types.Type, hint string) Val {
	if t == nil {
		return Val{K: KScalar, S: e.fresh(hint, "Int")}
	}
	var ts []string
	for _, l := range e.leaves(t) {
		ts = append(ts, e.fresh(hint+l.Path, l.Sort))
	}
	v := e.unflatten(t, &ts)
	if v.K == KSlice {
		// incoming slices are modelled as starting at offset 0 of their backing array
		// (assumption: no partially overlapping slice views are passed in)
		v.Off = "0"
		e.note("incoming slices start at offset 0 of their backing array (no partially overlapping views)")
	}
	e.assumeRange(p, v)
	return v
}

// assumeRange adds the typing facts of a value: references point below the allocation frontier, lengths are non-negative.
func (e *Engine) assumeRange(p *Path, v Val) {
	if p == nil {
		return
	}
	switch v.K {
	case KSlice:
		p.assume("(and (>= " + v.S + " 0) (< " + v.S + " " + p.brk + ") (>= " + v.Off + " 0) (>= " + v.Len + " 0))")
	case KIface:
		p.assume("(and (>= " + v.Tag + " 0) (>= " + v.S + " 0) (< " + v.S + " " + p.brk + ") (=> (= " + v.Tag + " 0) (= " + v.S + " 0)))")
	case KStruct, KTuple:
		for _, f := range v.Fs {
			e.assumeRange(p, f)
		}
	case KScalar:
		if v.T == nil {
			return
		}
		switch u := v.T.Underlying().(type) {
		case *types.Pointer, *types.Map, *types.Chan:
			p.assume("(and (>= " + v.S + " 0) (< " + v.S + " " + p.brk + "))")
		case *types.Basic:
			if u.Info()&types.IsUnsigned != 0 {
				p.assume("(>= " + v.S + " 0)")
			}
		}
	case KFunc:
		p.assume("(>= " + v.S + " 0)")
	}
}

// alloc returns a fresh reference.
func (e *Engine) alloc(p *Path, hint string) string {
	r := e.fresh(hint, "Int")
	e.allocated[r] = true
	nb := e.fresh("brk", "Int")
	p.assume("(and (= " + r + " " + p.brk + ") (= " + nb + " (+ " + p.brk + " 1)))")
	p.brk = nb
	return r
}
