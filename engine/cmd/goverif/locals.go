package main

// Rename tolerance. Contract clauses name parameters, named results and local variables of the functions they annotate
// (Go has no ghost syntax to do otherwise). /verif/locals.json records, for every function under contract, the
// parameters and results by position and a structural signature of every named local (what kind of SSA values are
// bound to it, of which types, the how-manieth of that kind in the function). When a clause names an identifier the
// current source no longer has, the identifier is re-bound to the variable with the same position / signature: a pure
// renaming does not disturb the proof. Anything else (statements reordered so that the signatures shift, a variable
// that is really gone) stays an error, as before.

import (
	"encoding/json"
	"fmt"
	"go/ast"
	"go/types"
	"os"
	"sort"
	"strings"

	"golang.org/x/tools/go/ssa"
)

type funcLocals struct {
	Params  []string            `json:"params"`
	Results []string            `json:"results"`
	Locals  map[string][]string `json:"locals"` // name -> sorted signatures of the SSA values bound to it
}

// valueSigs: a signature for every SSA value of fn: kind|type|extra|ordinal among the values with the same prefix.
func valueSigs(fn *ssa.Function) map[ssa.Value]string {
	out := map[ssa.Value]string{}
	count := map[string]int{}
	add := func(v ssa.Value, kind, extra string) {
		pre := kind + "|" + types.TypeString(v.Type(), nil) + "|" + extra
		out[v] = fmt.Sprintf("%s|%d", pre, count[pre])
		count[pre]++
	}
	for i, p := range fn.Params {
		out[p] = fmt.Sprintf("param|%d", i)
	}
	for i, fv := range fn.FreeVars {
		out[fv] = fmt.Sprintf("freevar|%d", i)
	}
	for _, b := range fn.Blocks {
		for _, in := range b.Instrs {
			v, ok := in.(ssa.Value)
			if !ok {
				continue
			}
			switch in := in.(type) {
			case *ssa.Call:
				callee := "dynamic"
				if in.Call.IsInvoke() {
					callee = "invoke." + in.Call.Method.Name()
				} else if f := in.Call.StaticCallee(); f != nil {
					callee = f.String()
				} else if bi, ok := in.Call.Value.(*ssa.Builtin); ok {
					callee = "builtin." + bi.Name()
				}
				add(v, "call", callee)
			case *ssa.Extract:
				add(v, "extract", fmt.Sprintf("%d/%s", in.Index, out[in.Tuple]))
			case *ssa.FieldAddr:
				add(v, "fieldaddr", fmt.Sprint(in.Field))
			case *ssa.Field:
				add(v, "field", fmt.Sprint(in.Field))
			default:
				add(v, strings.TrimPrefix(fmt.Sprintf("%T", in), "*ssa."), "")
			}
		}
	}
	return out
}

// localSigs: for every named local of fn (by source name) the sorted signatures of the values its debug references bind.
func localSigs(fn *ssa.Function) map[string][]string {
	sigs := valueSigs(fn)
	set := map[string]map[string]bool{}
	for _, b := range fn.Blocks {
		for _, in := range b.Instrs {
			d, ok := in.(*ssa.DebugRef)
			if !ok {
				continue
			}
			id, ok := d.Expr.(*ast.Ident)
			if !ok {
				continue
			}
			if vv, ok := d.Object().(*types.Var); !ok || vv.IsField() {
				continue
			}
			s, ok := sigs[d.X]
			if !ok {
				switch x := d.X.(type) {
				case *ssa.Const:
					s = "const|" + types.TypeString(x.Type(), nil)
				case *ssa.Global:
					s = "global|" + x.Name()
				default:
					continue
				}
			}
			if d.IsAddr {
				s = "&" + s
			}
			if set[id.Name] == nil {
				set[id.Name] = map[string]bool{}
			}
			set[id.Name][s] = true
		}
	}
	out := map[string][]string{}
	for n, m := range set {
		for s := range m {
			out[n] = append(out[n], s)
		}
		sort.Strings(out[n])
	}
	return out
}

func localsOf(fn *ssa.Function) *funcLocals {
	fl := &funcLocals{Locals: localSigs(fn)}
	for _, p := range fn.Params {
		fl.Params = append(fl.Params, p.Name())
	}
	rs := fn.Signature.Results()
	for i := 0; i < rs.Len(); i++ {
		fl.Results = append(fl.Results, rs.At(i).Name())
	}
	return fl
}

// cmdLocals writes /verif/locals.json for the functions under contract of the given tree.
func cmdLocals(args []string) {
	repo, out := "/repo", "/verif/locals.json"
	for i := 0; i+1 < len(args); i += 2 {
		switch args[i] {
		case "-repo":
			repo = args[i+1]
		case "-out":
			out = args[i+1]
		}
	}
	e, err := LoadEngine(repo, []string{"./..."})
	if err != nil {
		fmt.Fprintln(os.Stderr, err)
		os.Exit(2)
	}
	all := map[string]*funcLocals{}
	for k := range e.cs.Funcs {
		if fn := e.funcs[k]; fn != nil && len(fn.Blocks) > 0 {
			all[shortTypeKey(k)] = localsOf(fn)
		}
	}
	b, _ := json.MarshalIndent(all, "", " ")
	if err := os.WriteFile(out, append(b, '\n'), 0o644); err != nil {
		fmt.Fprintln(os.Stderr, err)
		os.Exit(2)
	}
	fmt.Printf("%d functions recorded in %s\n", len(all), out)
}

func (e *Engine) loadLocals(path string) {
	e.recorded = map[string]*funcLocals{}
	b, err := os.ReadFile(path)
	if err != nil {
		return
	}
	_ = json.Unmarshal(b, &e.recorded)
}

// renamesOf: recorded name -> current name, for the identifiers of fn that the current source spells differently.
func (e *Engine) renamesOf(fn *ssa.Function) map[string]string {
	if fn == nil {
		return nil
	}
	if r, ok := e.renameCache[fn]; ok {
		return r
	}
	if e.renameCache == nil {
		e.renameCache = map[*ssa.Function]map[string]string{}
	}
	out := map[string]string{}
	e.renameCache[fn] = out
	old := e.recorded[shortTypeKey(e.funcKey(fn))]
	if old == nil {
		return out
	}
	cur := localsOf(fn)
	has := map[string]bool{}
	for _, n := range cur.Params {
		has[n] = true
	}
	for _, n := range cur.Results {
		has[n] = true
	}
	for n := range cur.Locals {
		has[n] = true
	}
	bind := func(was, now string) {
		if was == "" || was == "_" || now == "" || now == "_" || was == now || has[was] {
			return
		}
		out[was] = now
	}
	if len(old.Params) == len(cur.Params) {
		for i := range old.Params {
			bind(old.Params[i], cur.Params[i])
		}
	}
	if len(old.Results) == len(cur.Results) {
		for i := range old.Results {
			bind(old.Results[i], cur.Results[i])
		}
	}
	wasHad := map[string]bool{}
	for n := range old.Locals {
		wasHad[n] = true
	}
	for was, sig := range old.Locals {
		if has[was] || out[was] != "" {
			continue
		}
		match := ""
		n := 0
		for now, s2 := range cur.Locals {
			if wasHad[now] {
				continue // a name the recorded source already had: not a renaming of `was`
			}
			if strings.Join(sig, ";") == strings.Join(s2, ";") {
				match = now
				n++
			}
		}
		if n == 1 {
			out[was] = match
		}
	}
	if len(out) > 0 {
		var ns []string
		for was, now := range out {
			ns = append(ns, was+"->"+now)
		}
		sort.Strings(ns)
		e.note("identifiers renamed in the source since the contracts were written, re-bound by position / structure in " + shortTypeKey(e.funcKey(fn)) + ": " + strings.Join(ns, ", "))
	}
	return out
}

// migratedName: a local the verified function fn used to have (recorded under `was`) that now lives in the inlined helper
// (an extract-function refactoring may also have renamed it): the helper's local with the same kinds and types of SSA
// values, ordinals ignored (they restart in the helper). Unique match or nothing.
func (e *Engine) migratedName(fn, helper *ssa.Function, was string) string {
	old := e.recorded[shortTypeKey(e.funcKey(fn))]
	if old == nil || helper == nil {
		return ""
	}
	sig, ok := old.Locals[was]
	if !ok {
		return ""
	}
	strip := func(ss []string) string {
		var out []string
		for _, s := range ss {
			if i := strings.LastIndex(s, "|"); i >= 0 {
				s = s[:i]
			}
			out = append(out, s)
		}
		sort.Strings(out)
		return strings.Join(out, ";")
	}
	want := strip(sig)
	match, n := "", 0
	for now, s2 := range localSigs(helper) {
		if strip(s2) == want {
			match = now
			n++
		}
	}
	if n == 1 {
		return match
	}
	return ""
}
