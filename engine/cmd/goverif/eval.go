package main

// Evaluation of contract expressions to SMT terms.

import (
	"fmt"
	"go/types"
	"sort"
	"strings"
)

type EvalCtx struct {
	x      *Exec
	p      *Path
	cur    *Snap // nil = current state of p
	old    *Snap // state for old(); nil = same as cur
	vars   map[string]Val
	frame  *FrameState // for source-level names (may be nil)
	pkg    string      // package path for resolving unqualified type names
	inOld  bool
	bound  map[string]Val // variables bound by quantifiers and predicate parameters
	noRename bool
	iterCell string
	loopIter string // value of `loopiter` for the loop being evaluated // visited-set cell of the map iteration of the loop being checked
	preferFrame bool // loop invariants: source-level current values shadow entry values
	events []Event
}

type evalErr struct{ msg string }

func (e evalErr) Error() string { return e.msg }

func (c *EvalCtx) fail(f string, a ...interface{}) { panic(evalErr{fmt.Sprintf(f, a...)}) }

func (c *EvalCtx) with(vars map[string]Val) *EvalCtx {
	d := *c
	d.bound = map[string]Val{}
	for k, v := range c.bound {
		d.bound[k] = v
	}
	for k, v := range vars {
		d.bound[k] = v
	}
	return &d
}

func (c *EvalCtx) snap() *Snap {
	if c.inOld && c.old != nil {
		return c.old
	}
	return c.cur
}

// EvalBool evaluates e to a Bool term.
func (c *EvalCtx) EvalBool(e Expr) (s string, err error) {
	defer func() {
		if r := recover(); r != nil {
			if ee, ok := r.(evalErr); ok {
				err = fmt.Errorf("%s (in %s)", ee.msg, e.String())
				return
			}
			panic(r)
		}
	}()
	v := c.eval(e)
	return c.asBool(v), nil
}

func (c *EvalCtx) EvalTerm(e Expr) (s string, err error) {
	defer func() {
		if r := recover(); r != nil {
			if ee, ok := r.(evalErr); ok {
				err = fmt.Errorf("%s (in %s)", ee.msg, e.String())
				return
			}
			panic(r)
		}
	}()
	v := c.eval(e)
	if v.K != KScalar && v.K != KFunc {
		c.fail("scalar expected")
	}
	return v.S, nil
}

func (c *EvalCtx) sortOfVal(v Val) string {
	if v.Sort != "" {
		return v.Sort
	}
	if v.K == KGhostMap {
		return arrSort(v.GK, v.GV)
	}
	return c.x.e.sortOf(v.T)
}

func (c *EvalCtx) asBool(v Val) string {
	if v.Undef {
		return c.x.e.fresh("undef", "Bool")
	}
	if v.K != KScalar || c.sortOfVal(v) != "Bool" {
		c.fail("boolean expected, got %v", v.T)
	}
	return v.S
}

func (c *EvalCtx) specSort(ty string) (string, types.Type) {
	e := c.x.e
	switch ty {
	case "int", "int64", "ref", "time", "duration":
		return "Int", types.Typ[types.Int]
	case "bool":
		return "Bool", types.Typ[types.Bool]
	case "real", "float64":
		return "Real", types.Typ[types.Float64]
	case "string":
		return e.strSort(), types.Typ[types.String]
	case "intset":
		// a mathematical set of integers (map keys): visitedset, domset(m), emptyset, setadd, setin
		return "(Array Int Bool)", nil
	case "realseq":
		// the contents of a []float64 as a mathematical sequence: content(s), seqat(q, i)
		return "(Array Int Real)", nil
	}
	// Go type name: *T, T, pkg.T
	t := c.resolveType(ty)
	if t == nil {
		c.fail("unknown type %q", ty)
	}
	return e.sortOf(t), t
}

func (c *EvalCtx) resolveType(ty string) types.Type {
	e := c.x.e
	ptr := 0
	for strings.HasPrefix(ty, "*") {
		ty = ty[1:]
		ptr++
	}
	pkgPath := c.pkg
	name := ty
	if i := strings.LastIndex(ty, "."); i >= 0 {
		q := ty[:i]
		name = ty[i+1:]
		pkgPath = ""
		// match by full path, else by package name (deterministically: shortest, then lexicographic path)
		if p, ok := e.pkgs[q]; ok && p.Pkg.Scope().Lookup(name) != nil {
			pkgPath = q
		} else {
			for path, p := range e.pkgs {
				if p.Pkg.Name() == q && p.Pkg.Scope().Lookup(name) != nil {
					if pkgPath == "" || len(path) < len(pkgPath) || (len(path) == len(pkgPath) && path < pkgPath) {
						pkgPath = path
					}
				}
			}
		}
	}
	p := e.pkgs[pkgPath]
	if p == nil {
		return nil
	}
	obj := p.Pkg.Scope().Lookup(name)
	if obj == nil {
		return nil
	}
	t := obj.Type()
	for i := 0; i < ptr; i++ {
		t = types.NewPointer(t)
	}
	return t
}

func (c *EvalCtx) lookup(name string) (Val, bool) {
	if v, ok := c.bound[name]; ok {
		return v, true // quantifier / predicate parameters shadow everything
	}
	if c.preferFrame && c.frame != nil && !c.inOld {
		if v, ok := c.frame.names[name]; ok {
			if v.K == KAddr {
				return c.x.load(c.p, c.snap(), v.A), true
			}
			return v, true
		}
	}
	if v, ok := c.vars[name]; ok {
		return v, true
	}
	if c.frame != nil {
		if v, ok := c.frame.names[name]; ok {
			if v.K == KAddr {
				return c.x.load(c.p, c.snap(), v.A), true
			}
			return v, true
		}
	}
	if c.frame != nil && c.p != nil && c.frame.depth > 0 {
		// a clause of the verified function evaluated inside an inlined helper (loop invariants that followed their
		// loop into an extracted function): the callers' locals are still in scope for it
		for i := len(c.p.frames) - 1; i >= 0; i-- {
			fr := c.p.frames[i]
			if fr == c.frame || fr.depth >= c.frame.depth {
				continue
			}
			if v, ok := fr.names[name]; ok {
				if v.K == KAddr {
					return c.x.load(c.p, c.snap(), v.A), true
				}
				return v, true
			}
		}
	}
	if !c.noRename && c.x != nil && c.frame != nil && c.frame.depth > 0 && c.frame.fn != nil && c.x.e.contractOf(c.frame.fn) == nil {
		// an invariant that followed its loop into an extracted helper, whose locals may have been renamed on the way
		if now := c.x.e.migratedName(c.x.fn, c.frame.fn, name); now != "" && now != name {
			d := *c
			d.noRename = true
			if v, ok := d.lookup(now); ok {
				return v, true
			}
		}
	}
	if !c.noRename && c.x != nil {
		// the source may spell the identifier differently than when the contract was written (see locals.go)
		fn := c.x.fn
		if c.frame != nil && c.frame.fn != nil {
			fn = c.frame.fn
		}
		if now := c.x.e.renamesOf(fn)[name]; now != "" {
			d := *c
			d.noRename = true
			return d.lookup(now)
		}
	}
	return Val{}, false
}

func (c *EvalCtx) eval(e Expr) Val {
	eng := c.x.e
	switch e := e.(type) {
	case *ENum:
		if strings.Contains(e.V, ".") {
			return Val{K: KScalar, T: types.Typ[types.Float64], S: e.V, Sort: "Real"}
		}
		return intVal(e.V)
	case *EStr:
		return Val{K: KScalar, T: types.Typ[types.String], S: eng.strLit(e.V)}
	case *EIdent:
		switch e.Name {
		case "true", "false":
			return boolVal(e.Name)
		case "nil":
			return Val{K: KScalar, T: types.Typ[types.UntypedNil], S: "0", Sort: "Int"}
		case "zerotime":
			return intVal(zeroTimeNs)
		case "loopiter":
			// number of completed iterations of the loop whose invariant / measure is being evaluated
			if c.loopIter == "" {
				c.fail("loopiter is only meaningful in loop invariants and decreases clauses")
			}
			return intVal(c.loopIter)
		case "lastclock":
			if sn := c.snap(); sn != nil {
				return intVal(sn.clock)
			}
			return intVal(c.p.clock)
		case "emptyset":
			return Val{K: KScalar, S: "((as const (Array Int Bool)) false)", Sort: "(Array Int Bool)"}
		case "visitedset":
			// the keys the map iteration of the current loop has produced so far
			if c.iterCell != "" {
				if cell, ok := c.p.cells[c.iterCell]; ok && cell.K == KGhostMap && cell.GK == "Int" {
					return Val{K: KScalar, S: cell.S, Sort: "(Array Int Bool)"}
				}
			}
			c.fail("visitedset: no active iteration over an integer-keyed map")
		}
		if v, ok := c.lookup(e.Name); ok {
			return v
		}
		// package-level variable of the current package?
		if p := eng.pkgs[c.pkg]; p != nil {
			if g, ok := p.Members[e.Name].(interface{ Type() types.Type }); ok {
				if gv := p.Var(e.Name); gv != nil {
					_ = g
					a := &Addr{Kind: AGlobal, Cell: "G:" + c.pkg + "." + e.Name, ET: gv.Type().(*types.Pointer).Elem()}
					return c.x.load(c.p, c.snap(), a)
				}
			}
		}
		c.fail("unknown identifier %q", e.Name)
	case *EUnary:
		v := c.eval(e.X)
		switch e.Op {
		case "!":
			return boolVal(not(c.asBool(v)))
		case "-":
			r := Val{K: KScalar, T: v.T, Sort: v.Sort, S: "(- " + v.S + ")"}
			return r
		case "*":
			if et := boxElem(v.T); et != nil && v.K == KScalar {
				return eng.loadField(c.p, c.snap(), v.S, typeKey(v.T), boxField, et)
			}
			c.fail("cannot dereference %s (only pointers to non-struct types)", e.X.String())
		}
	case *EBinary:
		return c.evalBinary(e)
	case *ESel:
		return c.evalSel(e)
	case *EIndex:
		x := c.eval(e.X)
		i := c.eval(e.I)
		switch x.K {
		case KSlice:
			et := x.T.Underlying().(*types.Slice).Elem()
			idx := i.S
			if x.Off != "0" {
				idx = "(+ " + x.Off + " " + i.S + ")"
			}
			return eng.loadElem(c.p, c.snap(), x.S, idx, et)
		case KGhostMap:
			return Val{K: KScalar, S: sel(x.S, i.S), Sort: x.GV}
		case KScalar:
			if x.T != nil {
				if mt, ok := x.T.Underlying().(*types.Map); ok {
					// specifications: m[k] of a reference-valued map is the stored value (guard with in(k, m))
					v, _ := eng.mapLoadX(c.p, c.snap(), x.T, x.S, i.S, refValued(mt.Elem()))
					return v
				}
			}
		}
		c.fail("cannot index %s", e.X.String())
	case *EQuant:
		vars := map[string]Val{}
		var binders []string
		for _, qv := range e.Vars {
			srt, t := c.specSort(qv.Type)
			eng.qcounter++
			name := fmt.Sprintf("|q:%s.%d|", qv.Name, eng.qcounter)
			binders = append(binders, "("+name+" "+srt+")")
			vars[qv.Name] = Val{K: KScalar, T: t, S: name, Sort: srt}
		}
		cc := c.with(vars)
		body := cc.eval(e.Body)
		q := "exists"
		if e.Forall {
			q = "forall"
		}
		bs := c.asBool(body)
		if len(e.Triggers) > 0 {
			var pats []string
			for _, t := range e.Triggers {
				pats = append(pats, cc.eval(t).S)
			}
			bs = "(! " + bs + " :pattern (" + strings.Join(pats, " ") + "))"
		}
		return boolVal("(" + q + " (" + strings.Join(binders, " ") + ") " + bs + ")")
	case *ECall:
		return c.evalCall(e)
	}
	c.fail("cannot evaluate %s", e.String())
	return Val{}
}

func (c *EvalCtx) evalBinary(e *EBinary) Val {
	switch e.Op {
	case "&&":
		l := c.asBool(c.eval(e.L))
		if l == "false" {
			return boolVal("false") // short-circuit: the right operand may be undefined on this path
		}
		return boolVal(and(l, c.asBool(c.eval(e.R))))
	case "||":
		l := c.asBool(c.eval(e.L))
		if l == "true" {
			return boolVal("true")
		}
		return boolVal(or(l, c.asBool(c.eval(e.R))))
	case "==>":
		l := c.asBool(c.eval(e.L))
		if l == "false" {
			return boolVal("true")
		}
		return boolVal(implies(l, c.asBool(c.eval(e.R))))
	case "<==>":
		return boolVal(eq(c.asBool(c.eval(e.L)), c.asBool(c.eval(e.R))))
	}
	l, r := c.eval(e.L), c.eval(e.R)
	switch e.Op {
	case "==":
		return boolVal(c.valEq(l, r))
	case "!=":
		return boolVal(not(c.valEq(l, r)))
	}
	ls, rs := c.sortOfVal(l), c.sortOfVal(r)
	lt, rt := l.S, r.S
	if ls == "Real" && rs == "Int" {
		rt = toReal(rt)
		rs = "Real"
	}
	if ls == "Int" && rs == "Real" {
		lt = toReal(lt)
		ls = "Real"
	}
	res := Val{K: KScalar, T: l.T, Sort: ls}
	if ls == "Real" {
		res.T = types.Typ[types.Float64]
	}
	switch e.Op {
	case "<", "<=", ">", ">=":
		if ls == "String" {
			switch e.Op {
			case "<":
				return boolVal("(str.< " + lt + " " + rt + ")")
			case "<=":
				return boolVal("(str.<= " + lt + " " + rt + ")")
			}
		}
		return boolVal("(" + e.Op + " " + lt + " " + rt + ")")
	case "+":
		if ls == "String" {
			res.S = "(str.++ " + lt + " " + rt + ")"
			return res
		}
		if ls == "Str" {
			// uninterpreted strings: the same symbol the executor uses for s + t
			c.x.e.ufun("str_cat", "(Str Str) Str")
			res.S = "(str_cat " + lt + " " + rt + ")"
			return res
		}
		res.S = "(+ " + lt + " " + rt + ")"
	case "-":
		res.S = "(- " + lt + " " + rt + ")"
	case "*":
		res.S = "(* " + lt + " " + rt + ")"
	case "/":
		if ls == "Real" {
			res.S = "(/ " + lt + " " + rt + ")"
		} else {
			res.S = "(div " + lt + " " + rt + ")" // spec-level: mathematical (floor for positive divisor)
		}
	case "%":
		res.S = "(mod " + lt + " " + rt + ")"
	default:
		c.fail("operator %s", e.Op)
	}
	return res
}

func toReal(t string) string {
	if isNonNegLit(t) {
		return t + ".0"
	}
	return "(to_real " + t + ")"
}

func (c *EvalCtx) valEq(l, r Val) string {
	if l.Undef || r.Undef {
		return c.x.e.fresh("undef", "Bool")
	}
	isNil := func(v Val) bool { return v.K == KScalar && v.T == types.Typ[types.UntypedNil] }
	if isNil(r) {
		l, r = r, l
	}
	if isNil(l) {
		switch r.K {
		case KIface:
			return eq(r.Tag, "0")
		case KSlice:
			return eq(r.S, "0")
		case KScalar, KFunc:
			return eq(r.S, "0")
		}
		c.fail("cannot compare with nil")
	}
	if l.K != r.K {
		// ghost scalars vs Go scalars are both KScalar; anything else is a type error
		c.fail("comparison of different kinds")
	}
	switch l.K {
	case KScalar, KFunc, KGhostMap:
		ls, rs := c.sortOfVal(l), c.sortOfVal(r)
		lt, rt := l.S, r.S
		if ls == "Real" && rs == "Int" {
			rt = toReal(rt)
		} else if ls == "Int" && rs == "Real" {
			lt = toReal(lt)
		} else if ls != rs {
			c.fail("comparison of sorts %s and %s", ls, rs)
		}
		return eq(lt, rt)
	case KIface:
		return and(eq(l.Tag, r.Tag), eq(l.S, r.S))
	case KSlice:
		return and(eq(l.S, r.S), eq(l.Off, r.Off), eq(l.Len, r.Len))
	case KStruct, KTuple:
		var cs []string
		for i := range l.Fs {
			cs = append(cs, c.valEq(l.Fs[i], r.Fs[i]))
		}
		return and(cs...)
	}
	c.fail("cannot compare")
	return ""
}

func (c *EvalCtx) evalSel(e *ESel) Val {
	eng := c.x.e
	x := c.eval(e.X)
	if x.Undef {
		return x
	}
	if x.K == KStruct {
		st := x.T.Underlying().(*types.Struct)
		for i := 0; i < st.NumFields(); i++ {
			if st.Field(i).Name() == e.F {
				return x.Fs[i]
			}
		}
		c.fail("no field %s", e.F)
	}
	if x.K == KIface && x.T != nil {
		// ghost field of an interface-typed value: keyed by the reference it holds
		tkey := typeKey(x.T)
		if tc := eng.cs.Types[tkey]; tc != nil {
			if g := tc.Ghost[e.F]; g != nil {
				return c.loadGhost(x.S, tkey, g)
			}
		}
		c.fail("interface type %s has no ghost field %s", tkey, e.F)
	}
	if x.K != KScalar || x.T == nil {
		c.fail("selector %s on non-reference", e.F)
	}
	if types.IsInterface(x.T) {
		// a quantified variable of interface type ranges over the references such values hold
		tkey := typeKey(x.T)
		if tc := eng.cs.Types[tkey]; tc != nil {
			if g := tc.Ghost[e.F]; g != nil {
				return c.loadGhost(x.S, tkey, g)
			}
		}
		c.fail("interface type %s has no ghost field %s", tkey, e.F)
	}
	pt, ok := x.T.Underlying().(*types.Pointer)
	if !ok {
		c.fail("selector %s on non-pointer %v", e.F, x.T)
	}
	tkey := typeKey(pt.Elem())
	if tc := eng.cs.Types[tkey]; tc != nil {
		if g := tc.Ghost[e.F]; g != nil {
			return c.loadGhost(x.S, tkey, g)
		}
	}
	st, ok := pt.Elem().Underlying().(*types.Struct)
	if !ok {
		c.fail("selector %s on pointer to non-struct %v", e.F, pt.Elem())
	}
	for i := 0; i < st.NumFields(); i++ {
		f := st.Field(i)
		if f.Name() == e.F {
			if _, isStruct := f.Type().Underlying().(*types.Struct); isStruct && !isTimeType(f.Type()) {
				// embedded struct by value: reference to the inner object
				return Val{K: KScalar, T: types.NewPointer(f.Type()), S: c.x.subObj(x.S, tkey, f.Name())}
			}
			v := eng.loadField(c.p, c.snap(), x.S, tkey, f.Name(), f.Type())
			return v
		}
	}
	c.fail("type %s has no field %s", tkey, e.F)
	return Val{}
}

func ghostSorts(e *Engine, ty string) (k, v string, isMap bool) {
	if strings.HasPrefix(ty, "map[") {
		i := strings.Index(ty, "]")
		ks := ty[4:i]
		vs := ty[i+1:]
		conv := func(s string) string {
			switch s {
			case "int", "ref", "int64":
				return "Int"
			case "bool":
				return "Bool"
			case "string":
				return e.strSort()
			case "real":
				return "Real"
			}
			return "Int"
		}
		return conv(ks), conv(vs), true
	}
	switch ty {
	case "bool":
		return "", "Bool", false
	case "real":
		return "", "Real", false
	case "string":
		return "", e.strSort(), false
	}
	return "", "Int", false
}

func (c *EvalCtx) loadGhost(obj, tkey string, g *GhostField) Val {
	eng := c.x.e
	ks, vs, isMap := ghostSorts(eng, g.Type)
	if isMap {
		a := eng.heapName(c.p, c.snap(), fieldKey(tkey, g.Name, ""), arrSort("Int", arrSort(ks, vs)))
		return Val{K: KGhostMap, S: sel(a, obj), GK: ks, GV: vs}
	}
	a := eng.heapName(c.p, c.snap(), fieldKey(tkey, g.Name, ""), arrSort("Int", vs))
	return Val{K: KScalar, S: sel(a, obj), Sort: vs}
}

func (c *EvalCtx) evalCall(e *ECall) Val {
	eng := c.x.e
	switch e.Fn {
	case "old":
		if len(e.Args) != 1 {
			c.fail("old takes one argument")
		}
		d := *c
		d.inOld = true
		return d.eval(e.Args[0])
	case "len":
		v := c.eval(e.Args[0])
		switch v.K {
		case KSlice:
			return intVal(v.Len)
		case KScalar:
			if v.T != nil {
				if _, ok := v.T.Underlying().(*types.Map); ok {
					return intVal(eng.mapLen(c.p, c.snap(), v.T, v.S))
				}
				if b, ok := v.T.Underlying().(*types.Basic); ok && b.Info()&types.IsString != 0 {
					if eng.stringMode {
						return intVal("(str.len " + v.S + ")")
					}
					eng.ufun("strlen", "(Str) Int")
					return intVal("(strlen " + v.S + ")")
				}
			}
		}
		c.fail("len of %s", e.Args[0].String())
	case "in":
		k := c.eval(e.Args[0])
		m := c.eval(e.Args[1])
		if m.K == KScalar && m.T != nil {
			if _, ok := m.T.Underlying().(*types.Map); ok {
				return boolVal(sel(eng.mapDom(c.p, c.snap(), m.T, m.S), k.S))
			}
		}
		c.fail("in(k, m) needs a map")
	case "ite":
		cnd := c.asBool(c.eval(e.Args[0]))
		a, b := c.eval(e.Args[1]), c.eval(e.Args[2])
		r := a
		r.S = ite(cnd, a.S, b.S)
		return r
	case "min", "max":
		a, b := c.eval(e.Args[0]), c.eval(e.Args[1])
		r := a
		if e.Fn == "min" {
			r.S = "(ite (<= " + a.S + " " + b.S + ") " + a.S + " " + b.S + ")"
		} else {
			r.S = "(ite (>= " + a.S + " " + b.S + ") " + a.S + " " + b.S + ")"
		}
		return r
	case "real":
		v := c.eval(e.Args[0])
		if c.sortOfVal(v) == "Real" {
			return v
		}
		return Val{K: KScalar, T: types.Typ[types.Float64], S: toReal(v.S), Sort: "Real"}
	case "calls":
		key := c.callKey(e.Args[0])
		n := 0
		for _, ev := range c.events {
			if eventMatches(ev.Key, key) {
				n++
			}
		}
		return intVal(fmt.Sprint(n))
	case "panicked":
		// panicked(key): some call matching key on this path ended in a panic
		key := c.callKey(e.Args[0])
		for _, ev := range c.events {
			if eventMatches(ev.Key, key) && ev.Panics {
				return boolVal("true")
			}
		}
		return boolVal("false")
	case "callarg", "callres":
		// callarg(key, k, i): i-th argument of the k-th (0-based) call matching key
		key := c.callKey(e.Args[0])
		k := atoi(e.Args[1].String())
		i := atoi(e.Args[2].String())
		n := 0
		for _, ev := range c.events {
			if eventMatches(ev.Key, key) {
				if n == k {
					vs := ev.Args
					if e.Fn == "callres" {
						vs = ev.Res
					}
					if i >= len(vs) {
						c.fail("%s: index %d out of range", e.Fn, i)
					}
					return vs[i]
				}
				n++
			}
		}
		return Val{K: KScalar, S: eng.fresh("undef", "Int"), Sort: "Int", Undef: true}
	case "before":
		// before(a, b): every call of a precedes every call of b on this path
		ka, kb := c.callKey(e.Args[0]), c.callKey(e.Args[1])
		lastA, firstB := -1, -1
		for i, ev := range c.events {
			if eventMatches(ev.Key, ka) {
				lastA = i
			}
			if eventMatches(ev.Key, kb) && firstB < 0 {
				firstB = i
			}
		}
		if firstB < 0 || lastA < firstB {
			return boolVal("true")
		}
		return boolVal("false")
	case "holds":
		key := c.callKey(e.Args[0])
		for k := range c.p.locks {
			if lockLabelMatches(k, key) {
				return boolVal("true")
			}
		}
		return boolVal("false")
	case "istype":
		v := c.eval(e.Args[0])
		if v.K != KIface {
			c.fail("istype needs an interface value")
		}
		tn := strings.Trim(e.Args[1].String(), `"`)
		t := c.resolveType(tn)
		if t == nil {
			c.fail("unknown type %s", tn)
		}
		return boolVal(eq(v.Tag, eng.typeID(t)))
	case "asref":
		v := c.eval(e.Args[0])
		t := c.resolveType(strings.Trim(e.Args[1].String(), `"`))
		if t == nil {
			c.fail("asref: unknown type %s", e.Args[1].String())
		}
		return Val{K: KScalar, T: t, S: v.S}
	case "header":
		// header(h, "Name"): first value of the canonicalised key, "" when absent (http.Header.Get)
		h := c.eval(e.Args[0])
		k := c.eval(e.Args[1])
		if h.T == nil {
			c.fail("header() needs an http.Header")
		}
		mt, ok := h.T.Underlying().(*types.Map)
		if !ok {
			c.fail("header() needs an http.Header")
		}
		eng.ufun("canon_header", "("+eng.strSort()+") "+eng.strSort())
		et := mt.Elem().Underlying().(*types.Slice).Elem()
		v, dom := eng.mapLoad(c.p, c.snap(), h.T, h.S, "(canon_header "+k.S+")")
		if !strings.Contains(v.S, "|q:") && !strings.Contains(h.S, "|q:") && !strings.Contains(k.S, "|q:") {
			eng.assumeRange(c.p, v) // stored header values are allocated slices (heap typing)
		}
		first := eng.loadElem(c.p, c.snap(), v.S, v.Off, et)
		return Val{K: KScalar, T: types.Typ[types.String], S: ite(and(not(eq(h.S, "0")), dom, "(> "+v.Len+" 0)"), first.S, zeroOfSort(eng.strSort()))}
	case "canon":
		// canon(k): textproto.CanonicalMIMEHeaderKey (uninterpreted, as in the http.Header model)
		k := c.eval(e.Args[0])
		eng.ufun("canon_header", "("+eng.strSort()+") "+eng.strSort())
		return Val{K: KScalar, T: types.Typ[types.String], S: "(canon_header " + k.S + ")"}
	case "durstring":
		v := c.eval(e.Args[0])
		eng.ufun("dur_string", "(Int) "+eng.strSort())
		return Val{K: KScalar, T: types.Typ[types.String], S: "(dur_string " + v.S + ")"}
	case "backing":
		v := c.eval(e.Args[0])
		if v.K != KSlice {
			c.fail("backing() needs a slice")
		}
		return intVal(v.S)
	case "implements":
		v := c.eval(e.Args[0])
		if v.K != KIface {
			c.fail("implements needs an interface value")
		}
		t := c.resolveType(strings.Trim(e.Args[1].String(), `"`))
		if t == nil {
			c.fail("implements: unknown interface %s", e.Args[1].String())
		}
		fn := implFun(t)
		eng.ufun(fn, "(Int) Bool")
		return boolVal("(" + fn + " " + v.Tag + ")")
	case "global":
		// global("pkg.Name"): a package-level variable of any loaded package
		name := strings.Trim(e.Args[0].String(), `"`)
		i := strings.LastIndex(name, ".")
		if i < 0 {
			c.fail("global(\"pkg.Name\")")
		}
		var paths []string
		if _, ok := eng.pkgs[name[:i]]; ok {
			paths = append(paths, name[:i])
		} else {
			for path, p := range eng.pkgs {
				if p.Pkg.Name() == name[:i] {
					paths = append(paths, path)
				}
			}
			sort.Strings(paths)
		}
		for _, path := range paths {
			p := eng.pkgs[path]
			{
				if gv := p.Var(name[i+1:]); gv != nil {
					a := &Addr{Kind: AGlobal, Cell: "G:" + path + "." + name[i+1:], ET: gv.Type().(*types.Pointer).Elem(), Label: name[i+1:]}
					return c.x.load(c.p, c.snap(), a)
				}
			}
		}
		c.fail("global: %s not found", name)
	case "concat", "contains", "prefixof", "suffixof", "strlen", "substr", "indexof", "isdigits":
		if !eng.stringMode {
			c.fail("%s() needs a function contract with the `strings` flag", e.Fn)
		}
		var a []string
		for _, x := range e.Args {
			a = append(a, c.eval(x).S)
		}
		strT := types.Typ[types.String]
		switch e.Fn {
		case "concat":
			return Val{K: KScalar, T: strT, S: "(str.++ " + strings.Join(a, " ") + ")"}
		case "contains":
			return boolVal("(str.contains " + a[0] + " " + a[1] + ")")
		case "prefixof":
			return boolVal("(str.prefixof " + a[0] + " " + a[1] + ")")
		case "suffixof":
			return boolVal("(str.suffixof " + a[0] + " " + a[1] + ")")
		case "strlen":
			return intVal("(str.len " + a[0] + ")")
		case "substr":
			return Val{K: KScalar, T: strT, S: "(str.substr " + a[0] + " " + a[1] + " " + a[2] + ")"}
		case "indexof":
			return intVal("(str.indexof " + a[0] + " " + a[1] + " 0)")
		case "isdigits":
			return boolVal("(str.in_re " + a[0] + " (re.+ (re.range \"0\" \"9\")))")
		}
	case "tagof":
		v := c.eval(e.Args[0])
		if v.K != KIface {
			c.fail("tagof needs an interface value")
		}
		return intVal(v.Tag)
	case "typeid":
		tn := strings.Trim(e.Args[0].String(), `"`)
		t := c.resolveType(tn)
		if t == nil {
			c.fail("unknown type %s", tn)
		}
		return intVal(eng.typeID(t))
	case "payload":
		v := c.eval(e.Args[0])
		if v.K != KIface {
			c.fail("payload needs an interface value")
		}
		var t types.Type
		if len(e.Args) > 1 {
			t = c.resolveType(strings.Trim(e.Args[1].String(), `"`))
		}
		return Val{K: KScalar, T: t, S: v.S, Sort: "Int"}
	case "fresh":
		v := c.eval(e.Args[0])
		if c.old == nil {
			c.fail("fresh() needs an old state")
		}
		nb := c.p.brk
		if sn := c.snap(); sn != nil {
			nb = sn.brk
		}
		// allocated during the call: at or above the entry frontier and below the current one
		return boolVal("(and (>= " + v.S + " " + c.old.brk + ") (< " + v.S + " " + nb + "))")
	case "typeinv":
		// typeinv(x): the declared invariants (type block, `inv`) of x's type, for x
		v := c.eval(e.Args[0])
		tc := c.x.invType(v.T)
		if tc == nil {
			c.fail("typeinv: no invariants declared for the type of %s", e.Args[0])
		}
		conj := []string{}
		for _, li := range tc.Invs {
			d := c.with(map[string]Val{li.Self: v})
			d.pkg = tc.Pkg
			conj = append(conj, d.eval(li.C.E).S)
		}
		return boolVal(and(conj...))
	case "allocated":
		v := c.eval(e.Args[0])
		b := c.p.brk
		if s := c.snap(); s != nil {
			b = s.brk
		}
		return boolVal("(and (> " + v.S + " 0) (< " + v.S + " " + b + "))")
	case "content":
		// content(s): the elements of a []float64, position 0 first, as a value (what is beyond len(s) is unspecified)
		v := c.eval(e.Args[0])
		if v.K != KSlice {
			c.fail("content() needs a slice")
		}
		st, ok := v.T.Underlying().(*types.Slice)
		if !ok || eng.sortOf(st.Elem()) != "Real" || len(eng.leaves(st.Elem())) != 1 {
			c.fail("content(): only []float64 is supported")
		}
		l := eng.leaves(st.Elem())[0]
		a := eng.heapName(c.p, c.snap(), elemKey(st.Elem(), l.Path), arrSort("Int", arrSort("Int", l.Sort)))
		row := sel(a, v.S)
		if v.Off != "" && v.Off != "0" {
			row = "(lambda ((sq!j Int)) (select " + row + " (+ " + v.Off + " sq!j)))"
		}
		return Val{K: KScalar, S: row, Sort: "(Array Int Real)"}
	case "seqat":
		q := c.eval(e.Args[0])
		i := c.eval(e.Args[1])
		return Val{K: KScalar, T: types.Typ[types.Float64], S: sel(q.S, i.S)}
	case "setadd":
		st := c.eval(e.Args[0])
		k := c.eval(e.Args[1])
		return Val{K: KScalar, S: store(st.S, k.S, "true"), Sort: "(Array Int Bool)"}
	case "setin":
		st := c.eval(e.Args[0])
		k := c.eval(e.Args[1])
		return boolVal(sel(st.S, k.S))
	case "domset":
		m := c.eval(e.Args[0])
		if m.K == KScalar && m.T != nil {
			if mt, ok := m.T.Underlying().(*types.Map); ok && eng.sortOf(mt.Key()) == "Int" {
				return Val{K: KScalar, S: eng.mapDom(c.p, c.snap(), m.T, m.S), Sort: "(Array Int Bool)"}
			}
		}
		c.fail("domset: %s is not an integer-keyed map", e.Args[0].String())
	case "visited":
		// visited(k): key k already produced by the map iteration of the current loop
		k := c.eval(e.Args[0])
		if c.iterCell != "" {
			if cell, ok := c.p.cells[c.iterCell]; ok && cell.K == KGhostMap {
				return boolVal(sel(cell.S, k.S))
			}
		}
		c.fail("visited(): no active map iteration")
	}
	if pd := eng.cs.Preds[e.Fn]; pd != nil {
		if len(pd.Params) != len(e.Args) {
			c.fail("pred %s: %d arguments expected", e.Fn, len(pd.Params))
		}
		vars := map[string]Val{}
		for i, pr := range pd.Params {
			vars[pr.Name] = c.eval(e.Args[i])
		}
		d := c.with(vars)
		d.pkg = pd.Pkg
		return d.eval(pd.Body)
	}
	if sf := eng.cs.Specs[e.Fn]; sf != nil {
		if len(sf.Params) != len(e.Args) {
			c.fail("spec %s: %d arguments expected", e.Fn, len(sf.Params))
		}
		var sig, args []string
		for _, rd := range sf.Reads {
			d := *c
			d.pkg = sf.Pkg
			for _, kk := range d.readKeys(rd) {
				sig = append(sig, kk[1])
				args = append(args, eng.heapName(c.p, c.snap(), kk[0], kk[1]))
			}
		}
		for i, pr := range sf.Params {
			s, _ := c.specSort(pr.Type)
			sig = append(sig, s)
			a := c.eval(e.Args[i])
			t := a.S
			if s == "Real" && c.sortOfVal(a) == "Int" {
				t = toReal(t)
			}
			args = append(args, t)
		}
		rs, rt := c.specSort(sf.Result)
		eng.ufun("spec_"+sf.Name, "("+strings.Join(sig, " ")+") "+rs)
		return Val{K: KScalar, T: rt, S: "(spec_" + sf.Name + " " + strings.Join(args, " ") + ")", Sort: rs}
	}
	c.fail("unknown function %s", e.Fn)
	return Val{}
}

// readKeys resolves a reads descriptor (T.f | elems(T) | mapof(T)) to heap keys with their sorts.
func (c *EvalCtx) readKeys(rd string) [][2]string {
	eng := c.x.e
	var out [][2]string
	if strings.HasPrefix(rd, "elems(") {
		t := c.resolveType(strings.TrimSuffix(strings.TrimPrefix(rd, "elems("), ")"))
		if t == nil {
			switch strings.TrimSuffix(strings.TrimPrefix(rd, "elems("), ")") {
			case "int":
				t = types.Typ[types.Int]
			case "float64":
				t = types.Typ[types.Float64]
			default:
				c.fail("reads: unknown type in %s", rd)
			}
		}
		for _, lf := range eng.leaves(t) {
			out = append(out, [2]string{elemKey(t, lf.Path), arrSort("Int", arrSort("Int", lf.Sort))})
		}
		return out
	}
	if strings.HasPrefix(rd, "mapof(") {
		// mapof(T.f): contents, domain and length of the maps stored in field f
		fd := strings.TrimSuffix(strings.TrimPrefix(rd, "mapof("), ")")
		j := strings.LastIndex(fd, ".")
		if j < 0 {
			c.fail("reads: bad descriptor %s", rd)
		}
		st := structOf(c.resolveType(fd[:j]))
		if st == nil {
			c.fail("reads: %s is not a struct", fd[:j])
		}
		for q := 0; q < st.NumFields(); q++ {
			if st.Field(q).Name() != fd[j+1:] {
				continue
			}
			mt, ok := st.Field(q).Type().Underlying().(*types.Map)
			if !ok {
				c.fail("reads: %s is not a map", fd)
			}
			ks := eng.sortOf(mt.Key())
			for _, lf := range eng.leaves(mt.Elem()) {
				out = append(out, [2]string{"M:" + mapKeyBase(st.Field(q).Type()) + lf.Path, arrSort("Int", arrSort(ks, lf.Sort))})
			}
			out = append(out, [2]string{"MD:" + mapKeyBase(st.Field(q).Type()), arrSort("Int", arrSort(ks, "Bool"))})
		}
		if len(out) == 0 {
			c.fail("reads: no field %s", fd)
		}
		return out
	}
	i := strings.LastIndex(rd, ".")
	if i < 0 {
		c.fail("reads: bad descriptor %s", rd)
	}
	t := c.resolveType(rd[:i])
	if t == nil {
		c.fail("reads: unknown type %s", rd[:i])
	}
	tkey := typeKey(t)
	if tc := eng.cs.Types[tkey]; tc != nil {
		if g := tc.Ghost[rd[i+1:]]; g != nil {
			ks, vs, isMap := ghostSorts(eng, g.Type)
			if isMap {
				return [][2]string{{fieldKey(tkey, g.Name, ""), arrSort("Int", arrSort(ks, vs))}}
			}
			return [][2]string{{fieldKey(tkey, g.Name, ""), arrSort("Int", vs)}}
		}
	}
	if rd[i+1:] == boxField {
		// T.*: what pointers to the non-struct type T point to (see boxField)
		if _, isStruct := t.Underlying().(*types.Struct); !isStruct {
			for _, lf := range eng.leaves(t) {
				out = append(out, [2]string{fieldKey(tkey, boxField, lf.Path), arrSort("Int", lf.Sort)})
			}
			return out
		}
	}
	st := structOf(t)
	if st == nil {
		c.fail("reads: %s is not a struct", rd[:i])
	}
	for j := 0; j < st.NumFields(); j++ {
		if st.Field(j).Name() == rd[i+1:] {
			for _, lf := range eng.leaves(st.Field(j).Type()) {
				out = append(out, [2]string{fieldKey(tkey, rd[i+1:], lf.Path), arrSort("Int", lf.Sort)})
			}
		}
	}
	if len(out) == 0 {
		c.fail("reads: no field %s", rd)
	}
	return out
}

func atoi(s string) int {
	n := 0
	fmt.Sscanf(s, "%d", &n)
	return n
}

// callKey: the call key of a clause, with its leading identifier following a renamed receiver / parameter / local.
func (c *EvalCtx) callKey(e Expr) string {
	k := callKeyOf(e)
	if c.x != nil && c.x.fn != nil {
		if ren := c.x.e.renamesOf(c.x.fn); len(ren) > 0 {
			k = renameLabel(k, ren)
		}
	}
	return k
}

func callKeyOf(e Expr) string {
	if s, ok := e.(*EStr); ok {
		return s.V
	}
	return e.String()
}

// eventMatches: an event key is "label.Method" (invoke through a labelled receiver),
// or an SSA function name. The contract may name either exactly, or just the suffix.
func eventMatches(ev, key string) bool {
	if ev == key {
		return true
	}
	return strings.HasSuffix(ev, "."+key) || strings.HasSuffix(ev, ")."+key)
}

func lockLabelMatches(lockKey, label string) bool {
	// lock identity keys look like "<obj term>|<tkey>.<field>|<label>"
	parts := strings.Split(lockKey, "\x00")
	return len(parts) == 3 && parts[2] == label
}
