package main

// Contract expression language: lexer, AST, parser.
//
//   e ::= forall x T, y T :: e | exists ... :: e
//       | e ==> e | e <==> e | e || e | e && e | !e
//       | e (== != < <= > >=) e | e (+ - * / %) e | -e
//       | e.f | e[i] | f(e,...) | old(e) | len(e) | ident | number | "string" | nil | true | false
//       | ite(c, a, b)

import (
	"fmt"
	"strings"
	"unicode"
)

type Expr interface{ String() string }

type (
	EIdent  struct{ Name string }
	ENum    struct{ V string } // integer or decimal literal
	EStr    struct{ V string }
	EUnary  struct{ Op string; X Expr }
	EBinary struct {
		Op   string
		L, R Expr
	}
	ESel   struct{ X Expr; F string }
	EIndex struct{ X, I Expr }
	ECall  struct {
		Fn   string
		Args []Expr
	}
	EQuant struct {
		Forall   bool
		Vars     []QVar
		Body     Expr
		Triggers []Expr // optional instantiation patterns: forall x int {f(x)} :: body
	}
)

type QVar struct{ Name, Type string }

func (e *EIdent) String() string  { return e.Name }
func (e *ENum) String() string    { return e.V }
func (e *EStr) String() string    { return fmt.Sprintf("%q", e.V) }
func (e *EUnary) String() string  { return e.Op + e.X.String() }
func (e *EBinary) String() string { return "(" + e.L.String() + " " + e.Op + " " + e.R.String() + ")" }
func (e *ESel) String() string    { return e.X.String() + "." + e.F }
func (e *EIndex) String() string  { return e.X.String() + "[" + e.I.String() + "]" }
func (e *ECall) String() string {
	var a []string
	for _, x := range e.Args {
		a = append(a, x.String())
	}
	return e.Fn + "(" + strings.Join(a, ", ") + ")"
}
func (e *EQuant) String() string {
	q := "exists"
	if e.Forall {
		q = "forall"
	}
	var vs []string
	for _, v := range e.Vars {
		vs = append(vs, v.Name+" "+v.Type)
	}
	return "(" + q + " " + strings.Join(vs, ", ") + " :: " + e.Body.String() + ")"
}

type tok struct {
	kind string // id num str op eof
	s    string
}

type lexer struct {
	src  string
	pos  int
	toks []tok
}

func lex(src string) ([]tok, error) {
	var out []tok
	i := 0
	for i < len(src) {
		c := src[i]
		switch {
		case c == ' ' || c == '\t' || c == '\n' || c == '\r':
			i++
		case unicode.IsLetter(rune(c)) || c == '_' || c == '$':
			j := i + 1
			for j < len(src) && (unicode.IsLetter(rune(src[j])) || unicode.IsDigit(rune(src[j])) || src[j] == '_' || src[j] == '$' || src[j] == '\'') {
				j++
			}
			out = append(out, tok{"id", src[i:j]})
			i = j
		case unicode.IsDigit(rune(c)):
			j := i + 1
			for j < len(src) && (unicode.IsDigit(rune(src[j])) || src[j] == '.' || src[j] == '_') {
				// do not swallow ".." or a selector
				if src[j] == '.' && (j+1 >= len(src) || !unicode.IsDigit(rune(src[j+1]))) {
					break
				}
				j++
			}
			out = append(out, tok{"num", strings.ReplaceAll(src[i:j], "_", "")})
			i = j
		case c == '"':
			j := i + 1
			var sb strings.Builder
			for j < len(src) && src[j] != '"' {
				if src[j] == '\\' && j+1 < len(src) {
					j++
				}
				sb.WriteByte(src[j])
				j++
			}
			if j >= len(src) {
				return nil, fmt.Errorf("unterminated string in %q", src)
			}
			out = append(out, tok{"str", sb.String()})
			i = j + 1
		default:
			ops := []string{"{", "}", "<==>", "==>", "::", "==", "!=", "<=", ">=", "&&", "||", "(", ")", "[", "]", ".", ",", "<", ">", "+", "-", "*", "/", "%", "!", ":"}
			matched := false
			for _, op := range ops {
				if strings.HasPrefix(src[i:], op) {
					out = append(out, tok{"op", op})
					i += len(op)
					matched = true
					break
				}
			}
			if !matched {
				return nil, fmt.Errorf("bad character %q in %q", c, src)
			}
		}
	}
	out = append(out, tok{"eof", ""})
	return out, nil
}

type parser struct {
	toks []tok
	p    int
	src  string
}

func ParseExpr(src string) (e Expr, err error) {
	toks, err := lex(src)
	if err != nil {
		return nil, err
	}
	ps := &parser{toks: toks, src: src}
	defer func() {
		if r := recover(); r != nil {
			if pe, ok := r.(parseErr); ok {
				err = fmt.Errorf("%s (in %q)", string(pe), src)
				return
			}
			panic(r)
		}
	}()
	e = ps.expr()
	if ps.peek().kind != "eof" {
		ps.fail("trailing tokens at %q", ps.peek().s)
	}
	return e, nil
}

type parseErr string

func (p *parser) fail(f string, a ...interface{}) { panic(parseErr(fmt.Sprintf(f, a...))) }
func (p *parser) peek() tok                      { return p.toks[p.p] }
func (p *parser) next() tok                      { t := p.toks[p.p]; p.p++; return t }
func (p *parser) isOp(s string) bool               { t := p.peek(); return t.kind == "op" && t.s == s }
func (p *parser) isID(s string) bool               { t := p.peek(); return t.kind == "id" && t.s == s }
func (p *parser) expectOp(s string) {
	if !p.isOp(s) {
		p.fail("expected %q, got %q", s, p.peek().s)
	}
	p.next()
}

func (p *parser) expr() Expr {
	if p.isID("forall") || p.isID("exists") {
		q := &EQuant{Forall: p.next().s == "forall"}
		for {
			name := p.next()
			if name.kind != "id" {
				p.fail("quantifier variable expected")
			}
			ty := p.typeName()
			q.Vars = append(q.Vars, QVar{name.s, ty})
			if p.isOp(",") {
				p.next()
				continue
			}
			break
		}
		if p.isOp("{") {
			p.next()
			for {
				q.Triggers = append(q.Triggers, p.expr())
				if p.isOp(",") {
					p.next()
					continue
				}
				break
			}
			p.expectOp("}")
		}
		p.expectOp("::")
		q.Body = p.expr()
		return q
	}
	return p.iff()
}

// typeName parses a quantifier variable type: int, string, bool, real, ref, *T, pkg.T
func (p *parser) typeName() string {
	s := ""
	for p.isOp("*") {
		p.next()
		s += "*"
	}
	t := p.next()
	if t.kind != "id" {
		p.fail("type name expected, got %q", t.s)
	}
	s += t.s
	if p.isOp(".") {
		p.next()
		s += "." + p.next().s
	}
	return s
}

func (p *parser) iff() Expr {
	l := p.impl()
	for p.isOp("<==>") {
		p.next()
		r := p.impl()
		l = &EBinary{"<==>", l, r}
	}
	return l
}

func (p *parser) impl() Expr {
	l := p.or()
	if p.isOp("==>") {
		p.next()
		var r Expr
		if p.isID("forall") || p.isID("exists") {
			r = p.expr()
		} else {
			r = p.impl()
		}
		return &EBinary{"==>", l, r}
	}
	return l
}

func (p *parser) or() Expr {
	l := p.and()
	for p.isOp("||") {
		p.next()
		l = &EBinary{"||", l, p.and()}
	}
	return l
}

func (p *parser) and() Expr {
	l := p.cmp()
	for p.isOp("&&") {
		p.next()
		l = &EBinary{"&&", l, p.cmp()}
	}
	return l
}

func (p *parser) cmp() Expr {
	l := p.add()
	// chained comparisons a <= b < c are allowed and mean the conjunction
	var conj Expr
	for {
		t := p.peek()
		if t.kind == "op" && (t.s == "==" || t.s == "!=" || t.s == "<" || t.s == "<=" || t.s == ">" || t.s == ">=") {
			p.next()
			r := p.add()
			c := &EBinary{t.s, l, r}
			if conj == nil {
				conj = c
			} else {
				conj = &EBinary{"&&", conj, c}
			}
			l = r
			continue
		}
		break
	}
	if conj != nil {
		return conj
	}
	return l
}

func (p *parser) add() Expr {
	l := p.mul()
	for p.isOp("+") || p.isOp("-") {
		op := p.next().s
		l = &EBinary{op, l, p.mul()}
	}
	return l
}

func (p *parser) mul() Expr {
	l := p.unary()
	for p.isOp("*") || p.isOp("/") || p.isOp("%") {
		op := p.next().s
		l = &EBinary{op, l, p.unary()}
	}
	return l
}

func (p *parser) unary() Expr {
	if p.isOp("!") {
		p.next()
		return &EUnary{"!", p.unary()}
	}
	if p.isOp("-") {
		p.next()
		return &EUnary{"-", p.unary()}
	}
	if p.isOp("*") {
		// *x: the value a pointer to a non-struct type (a named slice, ...) points to
		p.next()
		return &EUnary{"*", p.unary()}
	}
	return p.postfix()
}

func (p *parser) postfix() Expr {
	e := p.primary()
	for {
		switch {
		case p.isOp("."):
			p.next()
			t := p.next()
			if t.kind != "id" {
				p.fail("field name expected after '.'")
			}
			e = &ESel{e, t.s}
		case p.isOp("["):
			p.next()
			i := p.expr()
			p.expectOp("]")
			e = &EIndex{e, i}
		default:
			return e
		}
	}
}

func (p *parser) primary() Expr {
	t := p.next()
	switch t.kind {
	case "num":
		return &ENum{t.s}
	case "str":
		return &EStr{t.s}
	case "id":
		if p.isOp("(") {
			p.next()
			var args []Expr
			if !p.isOp(")") {
				for {
					args = append(args, p.expr())
					if p.isOp(",") {
						p.next()
						continue
					}
					break
				}
			}
			p.expectOp(")")
			return &ECall{t.s, args}
		}
		return &EIdent{t.s}
	case "op":
		if t.s == "(" {
			e := p.expr()
			p.expectOp(")")
			return e
		}
	}
	p.fail("unexpected token %q", t.s)
	return nil
}
