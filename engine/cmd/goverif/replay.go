package main

// Replay of failed obligations against the real code.
//
// /verif/replay/<Cxx>/*.go are in-package Go test files (never written into /repo: they are injected with
// `go test -overlay`). Header comments select when a harness applies:
//
//   // replay-pkg: connlimit
//   // replay-obligations: <regexp over obligation names>
//   // replay-run: <-run pattern>
//
// The harness receives the solver's values of the symbolic inputs in $VERIF_MODEL (JSON name -> value) and evaluates
// the executable form of the violated contract on the real code, on the model and on a small neighbourhood around it.
// A failing test is a concrete failing input; its output is stored in the replay file.

import (
	"encoding/json"
	"fmt"
	"os"
	"os/exec"
	"path/filepath"
	"regexp"
	"strings"
	"time"
)

var getValRe = regexp.MustCompile(`\((\|[^|]+\||[^\s()]+)\s+(\(- [0-9.]+\)|[^\s()]+|"[^"]*"|\([^()]*\))\)`)

func parseModel(ob *Obligation) map[string]string {
	out := map[string]string{}
	if ob.Model == "" {
		return out
	}
	rev := map[string]string{}
	for n, t := range ob.Inputs {
		rev[t] = n
	}
	for _, m := range getValRe.FindAllStringSubmatch(ob.Model, -1) {
		if n, ok := rev[m[1]]; ok {
			v := m[2]
			v = strings.TrimSuffix(strings.TrimPrefix(v, "(- "), ")")
			if strings.HasPrefix(m[2], "(- ") {
				v = "-" + v
			}
			out[n] = v
		}
	}
	return out
}

func (e *Engine) tryReplay(ob *Obligation, id, repo, verif, replayPath string) (string, bool) {
	if os.Getenv("VERIF_NO_REPLAY") != "" {
		// the self test only asks whether a seeded change is noticed: searching for a concrete witness is skipped
		return "", false
	}
	dir := filepath.Join(verif, "replay", id)
	files, _ := filepath.Glob(filepath.Join(dir, "*.go"))
	for _, f := range files {
		src, err := os.ReadFile(f)
		if err != nil {
			continue
		}
		hdr := string(src)
		get := func(key string) string {
			m := regexp.MustCompile(`(?m)^// ` + key + `:\s*(.+)$`).FindStringSubmatch(hdr)
			if m == nil {
				return ""
			}
			return strings.TrimSpace(m[1])
		}
		pkg, pat, run := get("replay-pkg"), get("replay-obligations"), get("replay-run")
		if pkg == "" || pat == "" {
			continue
		}
		re, err := regexp.Compile(pat)
		if err != nil || !re.MatchString(ob.Name) {
			continue
		}
		if run == "" {
			run = "TestVerifReplay"
		}
		scratch, _ := os.MkdirTemp("", "replay")
		defer os.RemoveAll(scratch)
		target := filepath.Join(repo, pkg, "zz_verif_replay_test.go")
		ov := map[string]interface{}{"Replace": map[string]string{target: f}}
		ovb, _ := json.Marshal(ov)
		ovf := filepath.Join(scratch, "overlay.json")
		os.WriteFile(ovf, ovb, 0o644)
		model, _ := json.Marshal(parseModel(ob))
		goArgs := []string{"test"}
		if fl := get("replay-flags"); fl != "" {
			goArgs = append(goArgs, strings.Fields(fl)...)
		}
		goArgs = append(goArgs, "-overlay", ovf, "-vet=off", "-count=1", "-timeout", "120s", "-run", run, "./"+pkg)
		cmd := exec.Command("go", goArgs...)
		cmd.Dir = repo
		cmd.Env = append(os.Environ(), "GOFLAGS=-mod=mod", "GOPROXY=off", "GOSUMDB=off", "GOTOOLCHAIN=local", "VERIF_MODEL="+string(model), "VERIF_OBLIGATION="+ob.Name)
		t0 := time.Now()
		out, err := cmd.CombinedOutput()
		secs := time.Since(t0).Seconds()
		failed := err != nil && (strings.Contains(string(out), "--- FAIL") || strings.Contains(string(out), "DATA RACE"))
		// append to the replay file
		var info map[string]interface{}
		if b, rerr := os.ReadFile(replayPath); rerr == nil {
			json.Unmarshal(b, &info)
		}
		if info == nil {
			info = map[string]interface{}{}
		}
		info["replay_harness"] = strings.TrimPrefix(f, verif+"/")
		info["replay_cmd"] = fmt.Sprintf("cd %s && VERIF_MODEL='%s' go test -overlay <overlay: %s -> %s> -vet=off -count=1 -run %s ./%s", repo, string(model), target, f, run, pkg)
		info["replay_output"] = tail(string(out), 4000)
		info["replay_failed_on_real_code"] = failed
		info["replay_time_s"] = round3(secs)
		info["model_inputs"] = parseModel(ob)
		b, _ := json.MarshalIndent(info, "", " ")
		os.WriteFile(replayPath, b, 0o644)
		if failed {
			return string(out), true
		}
	}
	return "", false
}

func tail(s string, n int) string {
	if len(s) <= n {
		return s
	}
	return s[len(s)-n:]
}
