package main

import (
	"fmt"
	"go/types"
	"sort"
	"strings"

	"golang.org/x/tools/go/ssa"
)

type callK func(p *Path, res Val)
type panK func(p *Path)

func (x *Exec) doCall(p *Path, site ssa.Instruction, cc *ssa.CallCommon, k callK, pk panK) {
	var args []Val
	for _, a := range cc.Args {
		args = append(args, x.val(p, a))
	}
	var fnv Val
	if cc.IsInvoke() {
		fnv = x.val(p, cc.Value)
	} else if _, isB := cc.Value.(*ssa.Builtin); !isB && cc.StaticCallee() == nil {
		fnv = x.val(p, cc.Value)
	} else if mc, ok := cc.Value.(*ssa.MakeClosure); ok {
		fnv = x.val(p, mc)
	}
	x.doCallVals(p, site, cc, fnv, args, k, pk)
}

func (x *Exec) callKey(p *Path, cc *ssa.CallCommon) string {
	if cc.IsInvoke() {
		rv, ok := p.top().env[cc.Value]
		lbl := "?"
		if ok && rv.Label != "" {
			lbl = rv.Label
		}
		return lbl + "." + cc.Method.Name()
	}
	if f := cc.StaticCallee(); f != nil {
		if f.Pkg != nil {
			if x.fn != nil && x.fn.Pkg != nil && f.Pkg != x.fn.Pkg {
				// a callee of another package is named pkg.Name, so that `multibuf.New` and `errors.New` can be told
				// apart in contracts (a bare `New` still matches both, by suffix)
				return f.Pkg.Pkg.Name() + "." + f.RelString(f.Pkg.Pkg)
			}
			return f.RelString(f.Pkg.Pkg)
		}
		return f.String()
	}
	if rv, ok := p.top().env[cc.Value]; ok {
		if rv.Fn != nil {
			return rv.Fn.RelString(rv.Fn.Pkg.Pkg)
		}
		if rv.Label != "" {
			return rv.Label
		}
	}
	return "dynamic"
}

func resultVal(t types.Type, vs []Val) Val {
	if tt, ok := t.(*types.Tuple); ok {
		if tt.Len() == 0 {
			return Val{K: KTuple, T: t}
		}
		if tt.Len() == 1 {
			return vs[0]
		}
		return Val{K: KTuple, T: t, Fs: vs}
	}
	if len(vs) == 1 {
		return vs[0]
	}
	return Val{K: KTuple, T: t, Fs: vs}
}

func (x *Exec) resultTypes(cc *ssa.CallCommon) []types.Type {
	var out []types.Type
	rs := cc.Signature().Results()
	for i := 0; i < rs.Len(); i++ {
		out = append(out, rs.At(i).Type())
	}
	return out
}

func (x *Exec) doCallVals(p *Path, site ssa.Instruction, cc *ssa.CallCommon, fnv Val, args []Val, k callK, pk panK) {
	e := x.e
	if p.dead {
		return
	}
	x.lastCallArgs = append(append([]Val{}, args...), fnv)
	rtypes := x.resultTypes(cc)
	rtuple := cc.Signature().Results()
	freshResults := func(hint string) []Val {
		var vs []Val
		for i, t := range rtypes {
			vs = append(vs, e.freshVal(p, t, fmt.Sprintf("%s_r%d", hint, i)))
		}
		return vs
	}
	// builtins
	if b, ok := cc.Value.(*ssa.Builtin); ok {
		k(p, x.builtin(p, b, cc, args))
		return
	}
	key := x.callKey(p, cc)
	if cc.IsInvoke() && fnv.Label != "" {
		key = fnv.Label + "." + cc.Method.Name()
	}
	if x.fc != nil {
		// at any inlining depth (deferred closures and small helpers included): the call log counts those calls too
		for ck, cls := range x.fc.AtCalls {
			if !eventMatches(key, renameLabel(ck, x.e.renamesOf(x.fn))) {
				continue
			}
			vars := map[string]Val{}
			for k2, v := range x.params {
				vars[k2] = v
			}
			for i, a := range args {
				vars[fmt.Sprintf("arg%d", i)] = a
			}
			ctx := x.evalCtx(p, vars)
			for _, c := range cls {
				s, err := ctx.EvalBool(c.E)
				if err != nil {
					x.errorf("%s:%d: at_call: %v", c.File, c.Line, err)
					continue
				}
				x.oblige(p, "at_call["+ck+"]", c.Label, s, c.Props, c.Src)
			}
		}
	}
	if sc := cc.StaticCallee(); sc != nil && len(args) > 0 {
		x.extsyncCheck(p, sc, args[0])
	} else if cc.IsInvoke() {
		// a mutator called through an interface type declared externally synchronised (e.g. roundrobin.Meter)
		x.extsyncCheckNamed(p, typeKey(cc.Value.Type()), cc.Method.Name(), fnv)
	}
	if len(p.frames) == 1 && x.fc != nil && len(x.fc.AfterCalls) > 0 {
		for ck, cls := range x.fc.AfterCalls {
			if !eventMatches(key, renameLabel(ck, x.e.renamesOf(x.fn))) {
				continue
			}
			k0 := k
			cls := cls
			k = func(p *Path, res Val) {
				vars := map[string]Val{}
				for k2, v := range x.params {
					vars[k2] = v
				}
				for i, a := range args {
					vars[fmt.Sprintf("arg%d", i)] = a
				}
				if res.K == KTuple {
					for i, r := range res.Fs {
						vars[fmt.Sprintf("result%d", i)] = r
					}
				} else {
					vars["result"] = res
					vars["result0"] = res
				}
				ctx := x.evalCtx(p, vars)
				for _, c := range cls {
					s, err := ctx.EvalBool(c.E)
					if err != nil {
						x.errorf("%s:%d: after_call: %v", c.File, c.Line, err)
						continue
					}
					p.assume(s)
					x.e.note("assumed after call " + ck + " in " + shortTypeKey(x.e.funcKey(x.fn)) + ": " + c.Src)
				}
				k0(p, res)
			}
		}
	}
	callee := cc.StaticCallee()
	if callee == nil && !cc.IsInvoke() && fnv.Fn != nil {
		callee = fnv.Fn
		// closure call: bindings are passed as free variables
	}
	if callee == nil && cc.IsInvoke() && fnv.K == KIface && fnv.Fn != nil {
		// interface holding a known function value (e.g. http.HandlerFunc)
	}
	if callee != nil {
		name := callee.String()
		if m := lookupModel(name); m != nil {
			res, ok := m.fn(x, p, site, cc, args)
			if !ok {
				return
			}
			if !m.silent {
				p.events = append(p.events, Event{Key: key, Args: args, Res: res})
			}
			k(p, resultVal(rtuple, res))
			return
		}
		if ec := e.cs.Externs[name]; ec != nil {
			// assumed contract of a dependency function; parameters are named by `params`
			x.escapeArgs(p, args)
			x.applyContract(p, site, ec, nil, key, args, rtypes, rtuple, k, pk)
			return
		}
		if fc := e.contractOf(callee); fc != nil && !(callee == x.fn && false) {
			x.escapeArgs(p, args)
			x.applyContract(p, site, fc, callee, key, args, rtypes, rtuple, k, pk)
			return
		}
		if x.inlinable(callee) && len(p.frames) < 5 && !x.onStack(p, callee) {
			x.inline(p, callee, fnv, args, key, rtuple, k, pk)
			return
		}
		if x.isPureExternal(callee) {
			res := freshResults(callee.Name())
			x.postExternalPure(p, callee, args, res)
			p.events = append(p.events, Event{Key: key, Args: args, Res: res})
			k(p, resultVal(rtuple, res))
			return
		}
		// unknown static callee
		x.external(p, key, args, freshResults, rtuple, k, pk, "call of "+name+" has no contract: treated as arbitrary")
		return
	}
	if cc.IsInvoke() {
		if x.isNoopInvoke(cc) {
			// a logger may format its arguments: String() methods of oxy types passed to it run here
			x.stringers(p, args, func(p *Path) { k(p, resultVal(rtuple, freshResults("noop"))) }, pk)
			return
		}
		if ic := x.ifaceContract(cc); ic != nil {
			x.escapeArgs(p, args)
			x.escapeVal(p, fnv)
			all := append([]Val{fnv}, args...)
			x.evArgsSkip = 1
			x.applyContract(p, site, ic, nil, key, all, rtypes, rtuple, k, pk)
			return
		}
		x.external(p, key, args, freshResults, rtuple, k, pk, "interface call "+key+" treated as arbitrary code")
		return
	}
	// dynamic function value
	if ft := x.functypeContract(cc); ft != nil {
		x.selfVal0 = &fnv
		if len(p.private) > 0 {
			for _, a := range args {
				if _, ok := p.private[a.S]; ok && a.K == KScalar {
					x.e.note("option-style function values (functype contracts) do not retain the object under construction")
				}
			}
		}
		x.applyContract(p, site, ft, nil, key, args, rtypes, rtuple, k, pk)
		return
	}
	x.external(p, key, args, freshResults, rtuple, k, pk, "call through function value "+key+" treated as arbitrary code")
}

func (x *Exec) onStack(p *Path, f *ssa.Function) bool {
	for _, fr := range p.frames {
		if fr.fn == f {
			return true
		}
	}
	return false
}

// external: arbitrary code. Everything not protected is havocked; the call may panic.
func (x *Exec) external(p *Path, key string, args []Val, freshResults func(string) []Val, rtuple *types.Tuple, k callK, pk panK, note string) {
	x.e.note(note)
	for _, a := range args {
		if a.K == KAddr && a.A.Kind == ALocal {
			p.escaped[a.A.Cell] = true
		}
	}
	x.escapeArgs(p, args)
	// a lock held across arbitrary code stays held; guarded state is protected from other threads but the
	// callee itself may re-enter: we havoc everything except immutable state (documented assumption: no re-entrancy
	// into the same instance's administration API).
	if x.npaths < x.maxPaths {
		x.npaths++
		q := p.clone(x.npaths)
		x.havocEverything(q)
		q.events = append(q.events, Event{Key: key, Args: args, Panics: true})
		pk(q)
	}
	x.havocEverything(p)
	res := freshResults("ext")
	if len(res) >= 1 && res[0].Label == "" {
		res[0].Label = key
	}
	p.events = append(p.events, Event{Key: key, Args: args, Res: res})
	k(p, resultVal(rtuple, res))
}

func (x *Exec) inlinable(f *ssa.Function) bool {
	if f == nil || len(f.Blocks) == 0 {
		return false
	}
	if f.Pkg == nil {
		// anonymous function: inlinable if its outermost parent is in oxy
		q := f
		for q.Parent() != nil {
			q = q.Parent()
		}
		if q.Pkg == nil || !strings.HasPrefix(q.Pkg.Pkg.Path(), oxyMod) {
			return false
		}
	} else if !strings.HasPrefix(f.Pkg.Pkg.Path(), oxyMod) {
		return false
	}
	if fc := x.e.contractOf(f); fc != nil && fc.NoInline {
		return false
	}
	n := 0
	for _, b := range f.Blocks {
		for _, in := range b.Instrs {
			if _, ok := in.(*ssa.DebugRef); !ok {
				n++
			}
		}
	}
	return n <= 120
}

func (x *Exec) inline(p *Path, callee *ssa.Function, fnv Val, args []Val, key string, rtuple *types.Tuple, k callK, pk panK) {
	x.e.counter++
	fr := &FrameState{fn: callee, env: map[ssa.Value]Val{}, names: map[string]Val{}, depth: len(p.frames), id: x.e.counter, loopMeas: map[*ssa.BasicBlock][]string{}, inLoop: map[*ssa.BasicBlock]bool{}}
	for i, prm := range callee.Params {
		if i < len(args) {
			v := args[i]
			if v.Label == "" {
				v.Label = prm.Name()
			}
			fr.env[prm] = v
			fr.names[prm.Name()] = v
		}
	}
	for i, fv := range callee.FreeVars {
		if i < len(fnv.Binds) {
			fr.env[fv] = fnv.Binds[i]
		} else {
			fr.env[fv] = x.e.freshVal(p, fv.Type(), fv.Name())
		}
	}
	nframes := len(p.frames)
	p.frames = append(p.frames, fr)
	p.trace = append(p.trace, "inline:"+callee.Name())
	evIdx := len(p.events)
	_ = evIdx
	kk := &Cont{
		ret: func(p *Path, res []Val) {
			p.frames = p.frames[:nframes]
			p.events = append(p.events, Event{Key: key, Args: args, Res: res})
			k(p, resultVal(rtuple, res))
		},
		pan: func(p *Path) {
			p.frames = p.frames[:nframes]
			pk(p)
		},
	}
	x.enterBlock(p, callee.Blocks[0], nil, kk)
}

// ---- contracts at call sites -------------------------------------------------

func (x *Exec) contractVars(fc *FuncContract, callee *ssa.Function, args []Val) map[string]Val {
	vars := map[string]Val{}
	if callee != nil {
		for i, prm := range callee.Params {
			if i < len(args) {
				vars[prm.Name()] = args[i]
			}
		}
		// parameters renamed since the contract was written keep their recorded names as aliases
		for was, now := range x.e.renamesOf(callee) {
			if v, ok := vars[now]; ok {
				if _, taken := vars[was]; !taken {
					vars[was] = v
				}
			}
		}
	} else {
		for i, n := range fc.ParamNames {
			if i < len(args) {
				vars[n] = args[i]
			}
		}
	}
	return vars
}

func (x *Exec) applyContract(p *Path, site ssa.Instruction, fc *FuncContract, callee *ssa.Function, key string, args []Val, rtypes []types.Type, rtuple *types.Tuple, k callK, pk panK) {
	e := x.e
	evArgs := args[x.evArgsSkip:]
	x.evArgsSkip = 0
	vars := x.contractVars(fc, callee, args)
	if x.selfVal0 != nil {
		vars["self"] = *x.selfVal0
		x.selfVal0 = nil
	}
	cname := fc.Name
	pre := x.evalCtx(p, vars)
	pre.pkg = fc.Pkg
	pre.old = nil
	pre.frame = nil
	// 1. preconditions
	for _, c := range fc.Requires {
		s, err := pre.EvalBool(c.E)
		if err != nil {
			x.errorf("%s:%d: requires at call: %v", c.File, c.Line, err)
			continue
		}
		lbl := c.Label
		if lbl == "" {
			lbl = fmt.Sprintf("L%d", c.Line)
		}
		x.oblige(p, "call["+cname+"]:pre", lbl, s, c.Props, c.Src)
		p.assume(s)
	}
	for _, h := range fc.Holds {
		// the lock named h (in callee terms) must be held by the caller
		held := x.lockModeForCallee(p, vars, h, fc.Pkg)
		switch {
		case held == "":
			x.oblige(p, "call["+cname+"]:holds", h, "false", []string{"C09"}, "caller must hold "+h)
		case held == "r" && !fc.HoldsRead[h]:
			x.oblige(p, "call["+cname+"]:holds", h, "false", []string{"C09"}, "caller holds "+h+" in read mode only; the callee's contract asks for exclusive mode (holds, not holds_read)")
		default:
			x.oblige(p, "call["+cname+"]:holds", h, "true", []string{"C09"}, "caller must hold "+h)
		}
	}
	// 2. atomic callee: interference before its critical section
	if fc.Atomic != "" {
		if x.lockHeldForCallee(p, vars, fc.Atomic, fc.Pkg) {
			x.oblige(p, "call["+cname+"]:deadlock", fc.Atomic, "false", []string{"C09"}, "callee locks "+fc.Atomic+" which the caller already holds")
		}
		x.interfere(p, vars, fc.Atomic, fc.Pkg)
	}
	old := p.snap()
	// 3. frame
	hctx := x.evalCtx(p, vars)
	hctx.pkg = fc.Pkg
	hctx.cur = old
	hctx.old = old
	hctx.frame = nil
	everything := false
	for _, m := range fc.Modifies {
		if m == "everything" {
			everything = true
		}
	}
	if everything {
		if fc.Kind == "func" {
			// an oxy function under contract may itself write state guarded by locks the caller holds:
			// nothing survives except what its postconditions say (immutable / stable state aside)
			e.havocAll(p)
		} else {
			x.havocEverything(p)
		}
	} else {
		if hasExternal(fc) {
			x.havocEverything(p)
		}
		for _, m := range fc.Modifies {
			x.havocTarget(p, hctx, m, false, fc)
			x.havocTarget(p, hctx, m, true, fc)
		}
		if fc.Kind == "func" && (len(fc.Holds) > 0 || fc.Atomic != "") {
			declared := *fc
			declared.Atomic = "" // the declared targets only, not what other threads may do meanwhile
			for _, k := range x.modKeysOfContract(&declared, nil) {
				x.ownGuardedWrite(p, k, "the call of "+cname)
			}
		}
	}
	if (fc.ReadsClock || everything || hasExternal(fc)) && !x.clockStable {
		t := e.fresh("now", "Int")
		p.assume("(>= " + t + " " + p.clock + ")")
		p.clock = t
	}
	// allocation frontier may move
	nb := e.fresh("brk", "Int")
	p.assume("(>= " + nb + " " + p.brk + ")")
	p.brk = nb
	// 4. results and postconditions
	var res []Val
	for i, t := range rtypes {
		res = append(res, e.freshVal(p, t, fmt.Sprintf("%s_r%d", sanitizeSym(cname), i)))
	}
	doPost := func(p *Path, clauses []*Clause, res []Val) {
		post := x.evalCtx(p, x.withResults(fc, vars, res))
		post.pkg = fc.Pkg
		post.old = old
		post.frame = nil
		for _, c := range clauses {
			if mentionsEvents(c.E) {
				continue // clauses about the callee's own call log are not visible to callers
			}
			s, err := post.EvalBool(c.E)
			if err != nil {
				if strings.Contains(err.Error(), "`strings` flag") {
					// a string-level postcondition is not visible to a caller that treats strings as uninterpreted
					continue
				}
				x.errorf("%s:%d: ensures at call: %v", c.File, c.Line, err)
				continue
			}
			if s == "false" {
				x.errorf("%s:%d: postcondition of %s is false at this call site", c.File, c.Line, fc.Name)
				continue
			}
			p.assume(s)
		}
	}
	if (fc.MayPanic || x.implicitMayPanic(fc)) && x.npaths < x.maxPaths {
		x.npaths++
		q := p.clone(x.npaths)
		doPost(q, fc.EnsPanic, nil)
		q.events = append(q.events, Event{Key: key, Args: evArgs, Panics: true})
		pk(q)
	}
	doPost(p, fc.GhostEns, res)
	doPost(p, fc.Ensures, res)
	if fc.Trusted {
		e.note("trusted contract: " + shortTypeKey(fc.Pkg) + "." + fc.Name)
	}
	if fc.Kind != "func" {
		e.note("assumed " + fc.Kind + " contract: " + fc.Name)
	}
	if fc.Kind == "extern" {
		key = fc.Name
	}
	if len(res) >= 1 && res[0].Label == "" {
		res[0].Label = key
	}
	for _, c := range fc.Ensures {
		if len(res) >= 1 && res[0].K == KScalar && (strings.Contains(c.Src, "fresh(result)") || strings.Contains(c.Src, "fresh(result0)")) {
			// the callee hands over an object it has just created: it is not shared yet
			e.allocated[res[0].S] = true
			p.nonnil[res[0].S] = true
			if pt, ok := res[0].T.Underlying().(*types.Pointer); ok {
				if _, isStruct := pt.Elem().Underlying().(*types.Struct); isStruct {
					if p.private == nil {
						p.private = map[string]string{}
					}
					p.private[res[0].S] = typeKey(pt.Elem())
					e.note("an object a callee returns as fresh is not kept by the callee: it stays private to the caller until the caller passes it on")
				}
			}
		}
	}
	p.events = append(p.events, Event{Key: key, Args: evArgs, Res: res})
	k(p, resultVal(rtuple, res))
}

// havocTarget forgets one modifies target. ghost selects ghost (true) or real (false) targets.
func (x *Exec) havocTarget(p *Path, ctx *EvalCtx, target string, ghost bool, fc *FuncContract) {
	e := x.e
	if target == "nothing" || target == "everything" || target == "external" {
		return
	}
	ex, err := ParseExpr(target)
	if err != nil {
		x.errorf("modifies %q: %v", target, err)
		return
	}
	defer func() {
		if r := recover(); r != nil {
			if ee, ok := r.(evalErr); ok {
				x.errorf("modifies %q: %s", target, ee.msg)
				return
			}
			panic(r)
		}
	}()
	fieldInfo := func(base Val, f string) (tkey string, g *GhostField, ft types.Type) {
		if base.T == nil {
			ctx.fail("modifies: base has no type")
		}
		if base.K == KIface {
			tkey = typeKey(base.T)
			if tc := e.cs.Types[tkey]; tc != nil {
				if gg := tc.Ghost[f]; gg != nil {
					return tkey, gg, nil
				}
			}
			ctx.fail("modifies: interface type %s has no ghost field %s", tkey, f)
		}
		pt, ok := base.T.Underlying().(*types.Pointer)
		if !ok {
			ctx.fail("modifies: base is not a pointer")
		}
		tkey = typeKey(pt.Elem())
		if tc := e.cs.Types[tkey]; tc != nil {
			if gg := tc.Ghost[f]; gg != nil {
				return tkey, gg, nil
			}
		}
		st := structOf(base.T)
		if st != nil {
			for i := 0; i < st.NumFields(); i++ {
				if st.Field(i).Name() == f {
					return tkey, nil, st.Field(i).Type()
				}
			}
		}
		ctx.fail("modifies: no field %s in %s", f, tkey)
		return
	}
	switch t := ex.(type) {
	case *ESel:
		tname := ""
		if id, ok := t.X.(*EIdent); ok {
			if _, isVar := ctx.lookup(id.Name); !isVar {
				tname = id.Name
			}
		} else if q, ok := t.X.(*ESel); ok {
			if id, ok := q.X.(*EIdent); ok {
				if _, isVar := ctx.lookup(id.Name); !isVar && ctx.resolveType(id.Name+"."+q.F) != nil {
					tname = id.Name + "." + q.F // pkg.T.f
				}
			}
		}
		if tname != "" {
			{
				// T.f: whole field
				ty := ctx.resolveType(tname)
				if ty == nil {
					ctx.fail("modifies: unknown %s", tname)
				}
				tkey := typeKey(ty)
				if tc := e.cs.Types[tkey]; tc != nil && tc.Ghost[t.F] != nil {
					if ghost {
						e.heapHavoc(p, fieldKey(tkey, t.F, ""))
					}
					return
				}
				if ghost {
					return
				}
				st := structOf(ty)
				for i := 0; i < st.NumFields(); i++ {
					if st.Field(i).Name() == t.F {
						for _, lf := range e.leaves(st.Field(i).Type()) {
							e.keySort[fieldKey(tkey, t.F, lf.Path)] = arrSort("Int", lf.Sort)
							e.heapHavoc(p, fieldKey(tkey, t.F, lf.Path))
						}
					}
				}
				return
			}
		}
		base := ctx.eval(t.X)
		tkey, g, ft := fieldInfo(base, t.F)
		if g != nil {
			if !ghost {
				return
			}
			ks, vs, isMap := ghostSorts(e, g.Type)
			srt := arrSort("Int", vs)
			inner := vs
			if isMap {
				inner = arrSort(ks, vs)
				srt = arrSort("Int", inner)
			}
			k := fieldKey(tkey, g.Name, "")
			a := e.heapName(p, nil, k, srt)
			e.heapSet(p, k, srt, store(a, base.S, e.fresh("gh", inner)))
			return
		}
		if ghost {
			return
		}
		for _, lf := range e.leaves(ft) {
			k := fieldKey(tkey, t.F, lf.Path)
			srt := arrSort("Int", lf.Sort)
			a := e.heapName(p, nil, k, srt)
			e.heapSet(p, k, srt, store(a, base.S, e.fresh("mod", lf.Sort)))
		}
	case *EUnary:
		if t.Op != "*" {
			ctx.fail("modifies: unsupported target")
		}
		if ghost {
			return
		}
		base := ctx.eval(t.X)
		et := boxElem(base.T)
		if et == nil || base.K != KScalar {
			ctx.fail("modifies: %s is not a pointer to a non-struct value", t.X.String())
		}
		for _, lf := range e.leaves(et) {
			k := fieldKey(typeKey(base.T), boxField, lf.Path)
			srt := arrSort("Int", lf.Sort)
			a := e.heapName(p, nil, k, srt)
			e.heapSet(p, k, srt, store(a, base.S, e.fresh("mod", lf.Sort)))
		}
	case *EIndex:
		if s, ok := t.X.(*ESel); ok {
			base := ctx.eval(s.X)
			if base.K == KScalar && base.T != nil {
				if _, isPtr := base.T.Underlying().(*types.Pointer); isPtr {
					tkey, g, _ := fieldInfo(base, s.F)
					if g != nil {
						if !ghost {
							return
						}
						ks, vs, _ := ghostSorts(e, g.Type)
						idx := ctx.eval(t.I)
						srt := arrSort("Int", arrSort(ks, vs))
						k := fieldKey(tkey, g.Name, "")
						a := e.heapName(p, nil, k, srt)
						e.heapSet(p, k, srt, store(a, base.S, store(sel(a, base.S), idx.S, e.fresh("gh", vs))))
						return
					}
				}
			}
		}
		if ghost {
			return
		}
		cont := ctx.eval(t.X)
		idx := ctx.eval(t.I)
		switch {
		case cont.K == KSlice:
			et := cont.T.Underlying().(*types.Slice).Elem()
			for _, lf := range e.leaves(et) {
				k := elemKey(et, lf.Path)
				srt := arrSort("Int", arrSort("Int", lf.Sort))
				a := e.heapName(p, nil, k, srt)
				e.heapSet(p, k, srt, store(a, cont.S, store(sel(a, cont.S), "(+ "+cont.Off+" "+idx.S+")", e.fresh("mod", lf.Sort))))
			}
		case cont.K == KScalar && cont.T != nil:
			mt, ok := cont.T.Underlying().(*types.Map)
			if !ok {
				ctx.fail("modifies: cannot index %v", cont.T)
			}
			ks := e.sortOf(mt.Key())
			for _, lf := range e.leaves(mt.Elem()) {
				k := "M:" + mapKeyBase(cont.T) + lf.Path
				srt := arrSort("Int", arrSort(ks, lf.Sort))
				a := e.heapName(p, nil, k, srt)
				e.heapSet(p, k, srt, store(a, cont.S, store(sel(a, cont.S), idx.S, e.fresh("mod", lf.Sort))))
			}
			dk := "MD:" + mapKeyBase(cont.T)
			dsrt := arrSort("Int", arrSort(ks, "Bool"))
			d := e.heapName(p, nil, dk, dsrt)
			e.heapSet(p, dk, dsrt, store(d, cont.S, store(sel(d, cont.S), idx.S, e.fresh("mod", "Bool"))))
			lk := "ML:" + mapKeyBase(cont.T)
			la := e.heapName(p, nil, lk, arrSort("Int", "Int"))
			e.heapSet(p, lk, arrSort("Int", "Int"), store(la, cont.S, e.fresh("mod", "Int")))
		default:
			ctx.fail("modifies: cannot index")
		}
	case *ECall:
		if ghost {
			return
		}
		if len(t.Args) != 1 {
			ctx.fail("modifies: %s takes one argument", t.Fn)
		}
		if t.Fn == "allelems" {
			// allelems(T): the elements of every []T (whole heap key), e.g. the buckets of every rolling counter
			for _, kk := range ctx.readKeys("elems(" + t.Args[0].String() + ")") {
				e.keySort[kk[0]] = kk[1]
				e.heapHavoc(p, kk[0])
			}
			return
		}
		v := ctx.eval(t.Args[0])
		switch t.Fn {
		case "elems":
			if v.K != KSlice {
				ctx.fail("elems() needs a slice")
			}
			et := v.T.Underlying().(*types.Slice).Elem()
			for _, lf := range e.leaves(et) {
				k := elemKey(et, lf.Path)
				srt := arrSort("Int", arrSort("Int", lf.Sort))
				a := e.heapName(p, nil, k, srt)
				e.heapSet(p, k, srt, store(a, v.S, e.fresh("mod", arrSort("Int", lf.Sort))))
			}
		case "mapof":
			mt, ok := v.T.Underlying().(*types.Map)
			if !ok {
				ctx.fail("mapof() needs a map")
			}
			ks := e.sortOf(mt.Key())
			for _, lf := range e.leaves(mt.Elem()) {
				k := "M:" + mapKeyBase(v.T) + lf.Path
				srt := arrSort("Int", arrSort(ks, lf.Sort))
				a := e.heapName(p, nil, k, srt)
				e.heapSet(p, k, srt, store(a, v.S, e.fresh("mod", arrSort(ks, lf.Sort))))
			}
			dk := "MD:" + mapKeyBase(v.T)
			dsrt := arrSort("Int", arrSort(ks, "Bool"))
			d := e.heapName(p, nil, dk, dsrt)
			e.heapSet(p, dk, dsrt, store(d, v.S, e.fresh("mod", arrSort(ks, "Bool"))))
			lk := "ML:" + mapKeyBase(v.T)
			la := e.heapName(p, nil, lk, arrSort("Int", "Int"))
			e.heapSet(p, lk, arrSort("Int", "Int"), store(la, v.S, e.fresh("mod", "Int")))
		default:
			ctx.fail("modifies: unknown form %s", t.Fn)
		}
	default:
		ctx.fail("modifies: unsupported target")
	}
}

// frameCheck: everything changed between the old snapshot and now must be covered by the modifies clause.
func (x *Exec) frameCheck(p *Path, fc *FuncContract) {
	e := x.e
	if hasEverything(fc) {
		return
	}
	var onlyKeys map[string]bool
	ownObj := map[string]string{}
	if hasExternal(fc) {
		// arbitrary code ran: only the state protected by the locks held on entry has a meaningful frame
		onlyKeys = map[string]bool{}
		labels := append([]string{}, fc.Holds...)
		if fc.Atomic != "" {
			labels = append(labels, fc.Atomic)
		}
		for _, lbl := range labels {
			ex, err := ParseExpr(lbl)
			if err != nil {
				continue
			}
			if sl, ok := ex.(*ESel); ok {
				ctx := x.evalCtx(p, x.params)
				var t types.Type
				if id, isID := sl.X.(*EIdent); isID {
					if v, isVar := ctx.lookup(id.Name); isVar {
						t = v.T
					} else {
						t = ctx.resolveType(id.Name)
					}
				}
				if t != nil {
					for _, k := range x.guardedKeys(typeKey(t), sl.F) {
						onlyKeys[k] = true
						if id, isID := sl.X.(*EIdent); isID && strings.HasPrefix(k, "F:"+typeKey(t)+".") {
							if v, isVar := ctx.lookup(id.Name); isVar && v.K == KScalar {
								ownObj[k] = v.S // the lock protects these fields of this object only
							}
						}
					}
				}
			}
		}
	}
	old := p.oldSnap
	// Build the "after modifies" state from old by havocking the declared targets on a scratch path, then require
	// that the real final state differs from old only where the scratch state was allowed to differ. We express this
	// per key: final[k] must equal old[k] at every location that the modifies clause leaves untouched.
	// Implementation: apply the targets to a clone starting from old; for each changed key compare.
	q := p.clone(-1)
	q.heap = map[string]string{}
	for k, v := range old.heap {
		q.heap[k] = v
	}
	q.epoch = old.epoch
	q.assumes = nil
	hctx := x.evalCtx(q, x.params)
	hctx.cur = old
	hctx.old = old
	hctx.pkg = fc.Pkg
	nerr := len(x.errs)
	for _, m := range fc.Modifies {
		x.havocTarget(q, hctx, m, false, fc)
		x.havocTarget(q, hctx, m, true, fc)
	}
	if len(x.errs) > nerr {
		return
	}
	// q.assumes now holds equations newKey = store(oldKey, loc, fresh) for allowed changes.
	keys := p.heapKeys()
	guarded := map[string]bool{}
	if fc.Atomic == "" && len(fc.Holds) == 0 {
		// not inside a critical section: guarded state may change under our feet (other threads)
		for tk, tc := range e.cs.Types {
			mus := map[string]bool{}
			for _, mu := range tc.Guarded {
				mus[mu] = true
			}
			for _, g := range tc.Ghost {
				if g.GuardedBy != "" {
					mus[g.GuardedBy] = true
				}
			}
			for mu := range mus {
				if strings.Contains(mu, ".") {
					continue
				}
				for _, gk := range x.guardedKeys(tk, mu) {
					guarded[gk] = true
				}
			}
		}
	}
	for _, k := range keys {
		srt, ok := e.keySort[k]
		if !ok {
			continue
		}
		if guarded[k] {
			continue
		}
		if onlyKeys != nil && !onlyKeys[k] {
			continue
		}
		if strings.HasPrefix(k, "F:") && e.isGhostKey(k) && false {
			continue
		}
		cur := p.heap[k]
		was := e.heapName(p, old, k, srt)
		if cur == was {
			continue
		}
		allowed, touched := q.heap[k]
		if !touched || allowed == was {
			allowed = was
		}
		// final must be obtainable: exists fresh values such that final == allowed pattern on old objects.
		// Since allowed = store-chain over `was` with fresh leaves, final agrees with `was` wherever allowed does,
		// i.e. we ask: forall old locations not written by the chain, final == was.
		goal := frameGoal(srt, cur, was, allowed, q.assumes, old.brk)
		if obj, ok := ownObj[k]; ok {
			// under `modifies external` other objects of the type are outside the lock's protection
			goal = frameGoalAt(srt, cur, was, allowed, q.assumes, obj)
		}
		ob := x.oblige(p, "frame", shortKey(k), goal, nil, "only the locations in the modifies clause change ("+k+")")
		_ = ob
	}
}

// ownGuardedWrite: a function that is not itself a critical section of its callers (no atomic / holds attribute) gets no
// frame check on lock-guarded state at its exits, because other threads may change that state between its critical
// sections. What the function writes ITSELF to guarded state (a store under a lock it takes, or a contracted callee
// that modifies such state) must still be covered by its modifies clause, at the granularity of heap keys.
func (x *Exec) ownGuardedWrite(p *Path, key, what string) {
	fc := x.fc
	if fc == nil || fc.Trusted || fc.Atomic != "" || len(fc.Holds) > 0 || hasEverything(fc) {
		return
	}
	if x.guardedAll == nil {
		x.guardedAll = map[string]bool{}
		for tk, tc := range x.e.cs.Types {
			mus := map[string]bool{}
			for _, mu := range tc.Guarded {
				mus[mu] = true
			}
			for _, g := range tc.Ghost {
				if g.GuardedBy != "" {
					mus[g.GuardedBy] = true
				}
			}
			for mu := range mus {
				if strings.Contains(mu, ".") {
					continue
				}
				for _, gk := range x.guardedKeys(tk, mu) {
					x.guardedAll[gk] = true
				}
			}
		}
		x.fcModKeys = map[string]bool{}
		for _, k := range x.modKeysOfContract(fc, nil) {
			x.fcModKeys[k] = true
		}
	}
	if !x.guardedAll[key] || x.fcModKeys[key] {
		return
	}
	if x.e.isGhostKey(key) {
		return
	}
	x.oblige(p, "frame", "guarded_write:"+shortKey(key), "false", nil, what+" writes lock-guarded state ("+shortKey(key)+") that the modifies clause of "+fc.Name+" does not list")
}

func shortKey(k string) string {
	k = shortTypeKey(k)
	return strings.NewReplacer(" ", "", "\x00", "").Replace(k)
}

func (e *Engine) isGhostKey(k string) bool {
	rest := strings.TrimPrefix(k, "F:")
	for tk, tc := range e.cs.Types {
		if strings.HasPrefix(rest, tk+".") {
			f := rest[len(tk)+1:]
			if tc.Ghost[f] != nil {
				return true
			}
		}
	}
	return false
}

// frameGoal builds: final equals `was` except at the locations written in the allowed store chain, for objects that existed before.
func frameGoal(srt, cur, was, allowed string, defs []string, oldBrk string) string {
	// resolve the definition chain of `allowed` down to `was`, collecting written locations
	defOf := map[string]string{}
	for _, d := range defs {
		// (= name term)
		if strings.HasPrefix(d, "(= |") {
			i := strings.Index(d[3:], "| ")
			if i > 0 {
				name := d[3 : 3+i+1]
				defOf[name] = d[3+i+2 : len(d)-1]
			}
		}
	}
	type loc struct{ obj, idx string }
	var locs []loc
	whole := map[string]bool{}
	t := allowed
	for t != was {
		def, ok := defOf[t]
		if !ok {
			// the whole key was havocked by the modifies clause (T.f): nothing to check
			return "true"
		}
		// def is (store BASE OBJ VAL)
		parts := splitSexp(def)
		if len(parts) != 4 || parts[0] != "store" {
			return "true"
		}
		base, obj, val := parts[1], parts[2], parts[3]
		vp := splitSexp(val)
		if len(vp) == 4 && vp[0] == "store" {
			locs = append(locs, loc{obj, vp[2]})
		} else {
			whole[obj] = true
		}
		t = base
	}
	// Array Int X: quantify over object o; if X is an array, also over index i
	inner := innerSort(srt)
	if !strings.HasPrefix(srt, "(Array ") {
		// scalar (global variable)
		if allowed != was {
			return "true"
		}
		return eq(cur, was)
	}
	var excl []string
	for o := range whole {
		excl = append(excl, eq("|q:o|", o))
	}
	sort.Strings(excl)
	if strings.HasPrefix(inner, "(Array ") {
		isort := strings.Fields(strings.TrimPrefix(inner, "(Array "))[0]
		for _, l := range locs {
			excl = append(excl, and(eq("|q:o|", l.obj), eq("|q:i|", l.idx)))
		}
		return "(forall ((|q:o| Int) (|q:i| " + isort + ")) (=> (and (> |q:o| 0) (< |q:o| " + oldBrk + ") " + not(or(excl...)) + ") (= (select (select " + cur + " |q:o|) |q:i|) (select (select " + was + " |q:o|) |q:i|))))"
	}
	return "(forall ((|q:o| Int)) (=> (and (> |q:o| 0) (< |q:o| " + oldBrk + ") " + not(or(excl...)) + ") (= (select " + cur + " |q:o|) (select " + was + " |q:o|))))"
}

// splitSexp splits "(a b (c d) e)" into [a, b, (c d), e].
func splitSexp(s string) []string {
	s = strings.TrimSpace(s)
	if !strings.HasPrefix(s, "(") || !strings.HasSuffix(s, ")") {
		return []string{s}
	}
	s = s[1 : len(s)-1]
	var out []string
	depth := 0
	start := -1
	inBar := false
	for i := 0; i < len(s); i++ {
		c := s[i]
		if c == '|' {
			inBar = !inBar
		}
		if inBar {
			if start < 0 {
				start = i
			}
			continue
		}
		switch c {
		case '(':
			if depth == 0 && start < 0 {
				start = i
			}
			depth++
		case ')':
			depth--
			if depth == 0 {
				out = append(out, s[start:i+1])
				start = -1
			}
		case ' ', '\t', '\n':
			if depth == 0 && start >= 0 {
				out = append(out, s[start:i])
				start = -1
			}
		default:
			if start < 0 {
				start = i
			}
		}
	}
	if start >= 0 {
		out = append(out, s[start:])
	}
	return out
}

// ---- interface / functype contracts ---------------------------------------------

func (x *Exec) ifaceContract(cc *ssa.CallCommon) *FuncContract {
	t := cc.Value.Type()
	n, ok := types.Unalias(t).(*types.Named)
	if !ok {
		return nil
	}
	o := n.Obj()
	if o.Pkg() == nil {
		if o.Name() == "error" {
			return x.e.cs.Ifaces["error."+cc.Method.Name()]
		}
		return nil
	}
	for _, k := range []string{o.Pkg().Path() + "." + o.Name() + "." + cc.Method.Name(), o.Pkg().Name() + "." + o.Name() + "." + cc.Method.Name()} {
		if c := x.e.cs.Ifaces[k]; c != nil {
			return c
		}
	}
	return nil
}

func (x *Exec) functypeContract(cc *ssa.CallCommon) *FuncContract {
	t := cc.Value.Type()
	n, ok := types.Unalias(t).(*types.Named)
	if !ok {
		return nil
	}
	o := n.Obj()
	if o.Pkg() == nil {
		return nil
	}
	for _, k := range []string{o.Pkg().Path() + "." + o.Name(), o.Pkg().Name() + "." + o.Name()} {
		if c := x.e.cs.Ifaces[k]; c != nil {
			return c
		}
	}
	return nil
}

// isNoopInvoke: logger calls have no effect on verified state.
func (x *Exec) isNoopInvoke(cc *ssa.CallCommon) bool {
	n, ok := types.Unalias(cc.Value.Type()).(*types.Named)
	if !ok {
		return false
	}
	o := n.Obj()
	if o.Pkg() != nil && o.Pkg().Path() == oxyMod+"/utils" && o.Name() == "Logger" {
		x.e.note("logger calls have no effect on verified state")
		return true
	}
	return false
}

// ---- locks ---------------------------------------------------------------------

func lockKey(own Owner, label string) string {
	return own.Obj + "\x00" + own.TKey + "." + own.Field + "\x00" + label
}

func (x *Exec) lockIdentity(p *Path, v Val) (Owner, string, bool) {
	if v.K == KAddr && v.A.Kind == AField {
		return Owner{Obj: v.A.Obj, TKey: v.A.TKey, Field: v.A.Field}, v.A.Label, true
	}
	if v.Own != nil {
		return *v.Own, v.Label, true
	}
	return Owner{}, "", false
}

// guardedKeys: heap keys protected by (tkey, mutex field).
func (x *Exec) guardedKeys(tkey, mu string) []string {
	e := x.e
	var out []string
	tname := tkey
	if i := strings.LastIndex(tkey, "."); i >= 0 {
		tname = tkey[i+1:]
	}
	var tks []string
	for tk := range e.cs.Types {
		tks = append(tks, tk)
	}
	sort.Strings(tks)
	for _, tk := range tks {
		tc := e.cs.Types[tk]
		samePkg := strings.TrimSuffix(tk, "."+tc.Name) == strings.TrimSuffix(tkey, "."+tname)
		st := x.structType(tk)
		var fields []string
		for f := range tc.Guarded {
			fields = append(fields, f)
		}
		sort.Strings(fields)
		for _, f := range fields {
			g := tc.Guarded[f]
			match := (tk == tkey && g == mu) || (samePkg && g == tname+"."+mu)
			if !match {
				continue
			}
			if gh := tc.Ghost[f]; gh != nil {
				ks, vs, isMap := ghostSorts(e, gh.Type)
				if isMap {
					e.keySort[fieldKey(tk, f, "")] = arrSort("Int", arrSort(ks, vs))
				} else {
					e.keySort[fieldKey(tk, f, "")] = arrSort("Int", vs)
				}
				out = append(out, fieldKey(tk, f, ""))
				continue
			}
			if st == nil {
				continue
			}
			for i := 0; i < st.NumFields(); i++ {
				fld := st.Field(i)
				if fld.Name() != f {
					continue
				}
				for _, lf := range e.leaves(fld.Type()) {
					k := fieldKey(tk, f, lf.Path)
					e.keySort[k] = arrSort("Int", lf.Sort)
					out = append(out, k)
				}
				switch u := fld.Type().Underlying().(type) {
				case *types.Map:
					ks := e.sortOf(u.Key())
					for _, lf := range e.leaves(u.Elem()) {
						k := "M:" + mapKeyBase(fld.Type()) + lf.Path
						e.keySort[k] = arrSort("Int", arrSort(ks, lf.Sort))
						out = append(out, k)
					}
					e.keySort["MD:"+mapKeyBase(fld.Type())] = arrSort("Int", arrSort(ks, "Bool"))
					e.keySort["ML:"+mapKeyBase(fld.Type())] = arrSort("Int", "Int")
					out = append(out, "MD:"+mapKeyBase(fld.Type()), "ML:"+mapKeyBase(fld.Type()))
				case *types.Slice:
					for _, lf := range e.leaves(u.Elem()) {
						k := elemKey(u.Elem(), lf.Path)
						e.keySort[k] = arrSort("Int", arrSort("Int", lf.Sort))
						out = append(out, k)
					}
				}
			}
		}
		for gname, gh := range tc.Ghost {
			if (tk == tkey && gh.GuardedBy == mu) || (samePkg && gh.GuardedBy == tname+"."+mu) {
				ks, vs, isMap := ghostSorts(e, gh.Type)
				if isMap {
					e.keySort[fieldKey(tk, gname, "")] = arrSort("Int", arrSort(ks, vs))
				} else {
					e.keySort[fieldKey(tk, gname, "")] = arrSort("Int", vs)
				}
				out = append(out, fieldKey(tk, gname, ""))
			}
		}
	}
	if tc := e.cs.Types[tkey]; tc != nil {
		ctx := &EvalCtx{x: x, pkg: tc.Pkg}
		for _, rd := range tc.Guards[mu] {
			func() {
				defer func() {
					if r := recover(); r != nil {
						if ee, ok := r.(evalErr); ok {
							x.errorf("guards %s: %s", rd, ee.msg)
							return
						}
						panic(r)
					}
				}()
				for _, kk := range ctx.readKeys(rd) {
					e.keySort[kk[0]] = kk[1]
					out = append(out, kk[0])
				}
			}()
		}
	}
	sort.Strings(out)
	return out
}

func (x *Exec) structType(tkey string) *types.Struct {
	i := strings.LastIndex(tkey, ".")
	if i < 0 {
		return nil
	}
	p := x.e.pkgs[tkey[:i]]
	if p == nil {
		return nil
	}
	o := p.Pkg.Scope().Lookup(tkey[i+1:])
	if o == nil {
		return nil
	}
	st, _ := o.Type().Underlying().(*types.Struct)
	return st
}

// acquire models Lock/RLock on the identified mutex.
func (x *Exec) acquire(p *Path, own Owner, label, mode string) {
	k := lockKey(own, label)
	if _, held := p.locks[k]; held {
		x.oblige(p, "lock", "no_double_lock", "false", nil, "lock "+label+" acquired while held (self-deadlock)")
	}
	p.locks[k] = mode
	for _, key := range x.guardedKeys(own.TKey, own.Field) {
		x.e.heapHavoc(p, key)
	}
	if x.clockStable {
		// `clock_stable` fixes one clock value per critical section, not across a wait for a lock: a reading taken
		// before Lock() may be older than the ones taken after it
		t := x.e.fresh("now", "Int")
		p.assume("(>= " + t + " " + p.clock + ")")
		p.clock = t
	}
	x.assumeLockInv(p, own)
	// the axioms speak about the current heap: state them again for the state behind the lock
	x.assumeAxioms(p)
	p.trace = append(p.trace, "lock:"+label)
	if x.fc != nil && x.fc.Atomic != "" && !p.atomicTaken && p.top().depth == 0 && label == x.fc.Atomic {
		p.atomicTaken = true
		p.oldSnap = p.snap()
	}
}

func (x *Exec) assumeLockInv(p *Path, own Owner) {
	tc := x.e.cs.Types[own.TKey]
	if tc == nil {
		return
	}
	for _, li := range tc.LockInv[own.Field] {
		ctx := x.evalCtx(p, map[string]Val{li.Self: x.selfVal(own)})
		ctx.pkg = tc.Pkg
		ctx.old = nil
		ctx.frame = nil
		s, err := ctx.EvalBool(li.C.E)
		if err != nil {
			x.errorf("%s:%d: lockinv: %v", li.C.File, li.C.Line, err)
			continue
		}
		p.assume(s)
	}
}

func (x *Exec) selfVal(own Owner) Val {
	i := strings.LastIndex(own.TKey, ".")
	var t types.Type
	if i >= 0 {
		if pk := x.e.pkgs[own.TKey[:i]]; pk != nil {
			if o := pk.Pkg.Scope().Lookup(own.TKey[i+1:]); o != nil {
				t = types.NewPointer(o.Type())
			}
		}
	}
	return Val{K: KScalar, T: t, S: own.Obj}
}

func (x *Exec) release(p *Path, own Owner, label, mode string) {
	k := lockKey(own, label)
	found := ""
	if _, held := p.locks[k]; held {
		found = k
	} else {
		// same object and field under a different label
		for kk := range p.locks {
			if strings.HasPrefix(kk, own.Obj+"\x00"+own.TKey+"."+own.Field+"\x00") {
				found = kk
			}
		}
	}
	if found == "" {
		x.oblige(p, "lock", "unlock_of_held", "false", []string{"C09"}, "unlock of "+label+" which is not held")
		return
	}
	if p.locks[found] != mode {
		x.oblige(p, "lock", "unlock_mode", "false", []string{"C09"}, "unlock mode differs from lock mode for "+label)
	}
	// lock invariant must hold again
	tc := x.e.cs.Types[own.TKey]
	if tc != nil {
		for _, li := range tc.LockInv[own.Field] {
			ctx := x.evalCtx(p, map[string]Val{li.Self: x.selfVal(own)})
			ctx.pkg = tc.Pkg
			ctx.frame = nil
			s, err := ctx.EvalBool(li.C.E)
			if err != nil {
				x.errorf("%s:%d: lockinv: %v", li.C.File, li.C.Line, err)
				continue
			}
			x.oblige(p, "unlock:inv", li.C.Label, s, li.C.Props, li.C.Src)
		}
	}
	delete(p.locks, found)
	p.trace = append(p.trace, "unlock:"+label)
}

func (x *Exec) assumeHeld(p *Path, label string, mode string) {
	// label like "r.mutex": resolve against parameters
	ex, err := ParseExpr(label)
	if err != nil {
		x.errorf("holds %q: %v", label, err)
		return
	}
	s, ok := ex.(*ESel)
	if !ok {
		x.errorf("holds %q: expected recv.field", label)
		return
	}
	ctx := x.evalCtx(p, x.params)
	if id, ok := s.X.(*EIdent); ok {
		if _, isVar := ctx.lookup(id.Name); !isVar {
			// type-level: some lock T.mu is held
			if t := ctx.resolveType(id.Name); t != nil {
				own := Owner{Obj: "?", TKey: typeKey(t), Field: s.F}
				p.locks[lockKey(own, label)] = mode
				return
			}
		}
	}
	var base Val
	func() {
		defer func() {
			if r := recover(); r != nil {
				x.errorf("holds %q: %v", label, r)
			}
		}()
		base = ctx.eval(s.X)
	}()
	if base.T == nil {
		return
	}
	own := Owner{Obj: base.S, TKey: typeKey(base.T), Field: s.F}
	p.locks[lockKey(own, label)] = mode
	// the lock invariant is NOT assumed: a helper may be called in the middle of a critical section
}

func (x *Exec) lockHeldForCallee(p *Path, vars map[string]Val, label, pkg string) bool {
	return x.lockModeForCallee(p, vars, label, pkg) != ""
}

// lockModeForCallee: "" (not held), "r" or "w": the strongest mode in which the caller holds the lock the callee names.
func (x *Exec) lockModeForCallee(p *Path, vars map[string]Val, label, pkg string) string {
	ex, err := ParseExpr(label)
	if err != nil {
		return ""
	}
	s, ok := ex.(*ESel)
	if !ok {
		return ""
	}
	best := ""
	upd := func(m string) {
		if m == "w" || best == "" {
			best = m
		}
	}
	ctx := x.evalCtx(p, vars)
	ctx.pkg = pkg
	ctx.frame = nil
	if id, ok := s.X.(*EIdent); ok {
		if _, isVar := ctx.lookup(id.Name); !isVar {
			if t := ctx.resolveType(id.Name); t != nil {
				want := typeKey(t) + "." + s.F
				for k, m := range p.locks {
					parts := strings.Split(k, "\x00")
					if len(parts) == 3 && parts[1] == want {
						upd(m)
					}
				}
				return best
			}
		}
	}
	var base Val
	okEval := true
	func() {
		defer func() {
			if r := recover(); r != nil {
				okEval = false
			}
		}()
		base = ctx.eval(s.X)
	}()
	if !okEval || base.T == nil {
		return ""
	}
	prefix := base.S + "\x00" + typeKey(base.T) + "." + s.F + "\x00"
	anyObj := "?\x00" + typeKey(base.T) + "." + s.F + "\x00" // type-level `holds T.mu` of the enclosing function
	for k, m := range p.locks {
		if strings.HasPrefix(k, prefix) || strings.HasPrefix(k, anyObj) {
			upd(m)
		}
	}
	return best
}

// interfere: other threads may run critical sections of this lock before the callee gets it.
func (x *Exec) interfere(p *Path, vars map[string]Val, label, pkg string) {
	ex, err := ParseExpr(label)
	if err != nil {
		return
	}
	s, ok := ex.(*ESel)
	if !ok {
		return
	}
	ctx := x.evalCtx(p, vars)
	ctx.pkg = pkg
	ctx.frame = nil
	var base Val
	okEval := true
	func() {
		defer func() {
			if r := recover(); r != nil {
				okEval = false
			}
		}()
		base = ctx.eval(s.X)
	}()
	if !okEval || base.T == nil {
		return
	}
	own := Owner{Obj: base.S, TKey: typeKey(base.T), Field: s.F}
	for _, key := range x.guardedKeys(own.TKey, own.Field) {
		x.e.heapHavoc(p, key)
	}
	x.assumeLockInv(p, own)
	if x.fc != nil && x.fc.Atomic != "" && !p.atomicTaken && len(p.frames) == 1 && x.fc.Atomic == label {
		// the function's own critical section has not started yet: what other threads did so far is part of the
		// state it starts from
		p.oldSnap = p.snap()
	}
}

func (x *Exec) lockKeysForCall(p *Path, fr *FrameState, cc *ssa.CallCommon) []string {
	if len(cc.Args) == 0 {
		return nil
	}
	// find the field the mutex comes from, statically
	v := cc.Args[0]
	var fa *ssa.FieldAddr
	switch v := v.(type) {
	case *ssa.FieldAddr:
		fa = v
	case *ssa.UnOp:
		if f, ok := v.X.(*ssa.FieldAddr); ok {
			fa = f
		}
	}
	if fa == nil {
		return nil
	}
	st := structOf(fa.X.Type())
	return x.guardedKeys(typeKey(fa.X.Type()), st.Field(fa.Field).Name())
}

// guardCheck: C09 obligation for an access to a guarded field.
func (x *Exec) guardCheck(p *Path, a *Addr, write bool, site ssa.Instruction) {
	if a.Kind != AField {
		return
	}
	tc := x.e.cs.Types[a.TKey]
	if tc == nil {
		// an object of a type without declarations (net/url.URL, ...) reached through a field of a shared oxy object:
		// writing into it is a write to shared state that nothing synchronises
		if write && a.Via != nil && !x.isFreshObj(p, a.Obj) && !x.isFreshObj(p, a.Via.Obj) {
			if oc := x.e.cs.Types[a.Via.TKey]; oc != nil && !x.isSetup(oc) && (oc.Immutable[a.Via.Field] || oc.Stable[a.Via.Field] || oc.Guarded[a.Via.Field] != "") {
				if mu := oc.Guarded[a.Via.Field]; mu != "" {
					x.lockCheck(p, a.Via.TKey, mu, a.Via.Obj, a.Via.Field+"."+a.Field, true)
					return
				}
				props := []string{"C09"}
				if oc.Shared {
					props = nil
				}
				x.oblige(p, "guard", "undeclared_write:"+a.Via.Field+"."+a.Field, "false", props, "write to "+shortTypeKey(a.TKey)+"."+a.Field+" of the object held in "+shortTypeKey(a.Via.TKey)+"."+a.Via.Field+": shared state with no declared synchronisation")
			}
		}
		return
	}
	if smu, isSink := tc.Sinks[a.Field]; isSink && !write && !x.isFreshObj(p, a.Obj) {
		if smu == "" {
			x.oblige(p, "guard", "sink:"+a.Field, "false", []string{"C09"}, "use of the shared sink "+shortTypeKey(a.TKey)+"."+a.Field+" by concurrent requests is not serialised by any lock")
		} else {
			x.lockCheck(p, a.TKey, smu, a.Obj, a.Field, true)
		}
	}
	if write && len(tc.Invs) > 0 && !x.isFreshObj(p, a.Obj) && invMentions(tc)[a.Field] {
		// encapsulation: the invariants are proved method by method, so only methods of the type may write the fields
		// they mention (of an object the function did not create itself)
		fn := p.top().fn
		isMethod := false
		if fn != nil && fn.Signature.Recv() != nil && len(fn.Params) > 0 {
			if t2 := x.invType(fn.Params[0].Type()); t2 == tc {
				isMethod = true
			}
		}
		if !isMethod {
			var props []string
			for _, li := range tc.Invs {
				props = append(props, li.C.Props...)
			}
			x.oblige(p, "guard", "inv_field_write:"+a.Field, "false", props, "write to "+shortTypeKey(a.TKey)+"."+a.Field+" outside the methods of the type: its invariants are proved method by method")
		}
	}
	mu, ok := tc.Guarded[a.Field]
	if !ok {
		if write && tc.Stable[a.Field] && !x.isFreshObj(p, a.Obj) && !x.isSetup(tc) {
			// `stable` is the assumption that code outside the contracts never changes the field; oxy's own writes to
			// it on an object it did not create must be declared in the function's modifies clause
			declared := false
			if x.fc != nil && !x.fc.Trusted {
				if hasEverything(x.fc) {
					declared = true
				}
				for _, k := range x.modKeysOfContract(x.fc, nil) {
					if strings.HasPrefix(k, fieldKey(a.TKey, a.Field, "")) {
						declared = true
					}
				}
			}
			if !declared {
				props := []string{"C09"}
				if x.fc != nil {
					props = append(props, x.fc.Props...)
				}
				x.oblige(p, "guard", "stable_write:"+a.Field, "false", props, "write to "+shortTypeKey(a.TKey)+"."+a.Field+" (assumed stable: never changed after creation) of an object this function did not create, not declared in its modifies clause")
			}
		}
		if write && tc.Immutable[a.Field] && !x.isFreshObj(p, a.Obj) && !x.isSetup(tc) {
			x.oblige(p, "guard", "immutable_write:"+a.Field, "false", []string{"C09"}, "write to field declared immutable: "+a.TKey+"."+a.Field)
		}
		if _, isSink := tc.Sinks[a.Field]; write && !tc.Immutable[a.Field] && !tc.Stable[a.Field] && !isSink && !tc.ExtSync && !x.isFreshObj(p, a.Obj) && !x.isSetup(tc) {
			props := []string{"C09"}
			if tc.Shared {
				props = nil // one instance serves concurrent requests: part of every property the function serves
			}
			x.oblige(p, "guard", "undeclared_write:"+a.Field, "false", props, "write to "+shortTypeKey(a.TKey)+"."+a.Field+", a field with no declared synchronisation")
		}
		return
	}
	if x.isFreshObj(p, a.Obj) {
		return
	}
	x.lockCheck(p, a.TKey, mu, a.Obj, a.Field, write)
	if write {
		if st := x.structType(a.TKey); st != nil {
			for i := 0; i < st.NumFields(); i++ {
				if st.Field(i).Name() == a.Field {
					for _, lf := range x.e.leaves(st.Field(i).Type()) {
						x.ownGuardedWrite(p, fieldKey(a.TKey, a.Field, lf.Path), "a store")
					}
				}
			}
		}
	}
}

func (x *Exec) isSetup(tc *TypeContract) bool {
	if tc.SetupOnly[x.fn.Name()] {
		return true
	}
	// option closures (func(*T) error returned by a function whose result type is a named ...Option type)
	// run inside the constructor, before the object is shared
	if par := x.fn.Parent(); par != nil && par.Signature.Results().Len() == 1 {
		if n, ok := types.Unalias(par.Signature.Results().At(0).Type()).(*types.Named); ok && strings.HasSuffix(n.Obj().Name(), "Option") {
			x.e.note("option closures run inside the constructor (object not yet shared)")
			return true
		}
	}
	return false
}

func (x *Exec) lockCheck(p *Path, tkey, mu, obj, field string, write bool) {
	want := tkey + "." + mu
	if strings.Contains(mu, ".") {
		// foreign guard: Type.mu in the same package
		i := strings.LastIndex(tkey, ".")
		want = tkey[:i+1] + mu
	}
	mode := ""
	for k, m := range p.locks {
		parts := strings.Split(k, "\x00")
		if len(parts) == 3 && parts[1] == want {
			if !strings.Contains(mu, ".") && parts[0] != obj {
				continue
			}
			if m == "w" || mode == "" {
				mode = m
			}
		}
	}
	acc := "read"
	if write {
		acc = "write"
	}
	okk := mode == "w" || (mode == "r" && !write)
	goal := "false"
	if okk {
		goal = "true"
	}
	x.oblige(p, "guard", acc+":"+field, goal, []string{"C09"}, acc+" of "+shortTypeKey(tkey)+"."+field+" requires "+mu)
}

func (x *Exec) guardCheckMap(p *Path, mv Val, write bool, site ssa.Instruction) {
	if mv.Own == nil {
		return
	}
	tc := x.e.cs.Types[mv.Own.TKey]
	if tc == nil {
		return
	}
	mu, ok := tc.Guarded[mv.Own.Field]
	if !ok {
		return
	}
	if x.isFreshObj(p, mv.Own.Obj) {
		return
	}
	x.lockCheck(p, mv.Own.TKey, mu, mv.Own.Obj, mv.Own.Field+"[]", write)
	if write && mv.T != nil {
		if u, ok := mv.T.Underlying().(*types.Map); ok {
			for _, lf := range x.e.leaves(u.Elem()) {
				x.ownGuardedWrite(p, "M:"+mapKeyBase(mv.T)+lf.Path, "a map update")
			}
			x.ownGuardedWrite(p, "MD:"+mapKeyBase(mv.T), "a map update")
		}
	}
}

func (x *Exec) isFreshObj(p *Path, obj string) bool {
	// objects allocated in this activation have names starting with the alloc hint and are >= entry brk;
	// we track them through nonnil+prefix: allocation results are declared via alloc().
	return x.e.allocated[obj]
}

// havocEverything: arbitrary code ran. Everything is forgotten except immutable/stable state and the state
// guarded by locks this thread holds (lock discipline: nobody else can write it; no re-entrancy assumption).
func (x *Exec) havocEverything(p *Path) {
	defer x.reassumeRecvInv(p)
	e := x.e
	whole := map[string]string{}
	type part struct{ key, obj, old, sort string }
	var parts []part
	for lk := range p.locks {
		ps := strings.Split(lk, "\x00")
		if len(ps) != 3 {
			continue
		}
		obj := ps[0]
		i := strings.LastIndex(ps[1], ".")
		if i < 0 {
			continue
		}
		tkey, field := ps[1][:i], ps[1][i+1:]
		for _, key := range x.guardedKeys(tkey, field) {
			srt, ok := e.keySort[key]
			if !ok {
				continue
			}
			old := e.heapName(p, nil, key, srt)
			if strings.HasPrefix(key, "F:"+tkey+".") && obj != "?" {
				parts = append(parts, part{key, obj, old, srt})
			} else {
				whole[key] = old
			}
		}
	}
	// objects this activation allocated and has not made reachable keep their fields
	type priv struct{ key, obj, old, sort string }
	var privs []priv
	if len(p.private) > 0 {
		var objs []string
		for o := range p.private {
			objs = append(objs, o)
		}
		sort.Strings(objs)
		for _, o := range objs {
			tk := p.private[o]
			st := x.structType(tk)
			if st == nil {
				continue
			}
			for i := 0; i < st.NumFields(); i++ {
				for _, lf := range e.leaves(st.Field(i).Type()) {
					key := fieldKey(tk, st.Field(i).Name(), lf.Path)
					srt, ok := e.keySort[key]
					if !ok {
						continue
					}
					privs = append(privs, priv{key, o, e.heapName(p, nil, key, srt), srt})
				}
			}
		}
	}
	e.havocAll(p)
	for _, pv := range privs {
		nw := e.heapName(p, nil, pv.key, pv.sort)
		p.assume(eq(sel(nw, pv.obj), sel(pv.old, pv.obj)))
	}
	if len(privs) > 0 {
		e.note("objects allocated by the function and not yet stored anywhere or passed on keep their fields across calls to arbitrary code")
	}
	for k, old := range whole {
		p.heap[k] = old
	}
	for _, pt := range parts {
		if _, isWhole := whole[pt.key]; isWhole {
			continue
		}
		nw := e.heapName(p, nil, pt.key, pt.sort)
		p.assume(eq(sel(nw, pt.obj), sel(pt.old, pt.obj)))
	}
	if len(whole)+len(parts) > 0 {
		e.note("state guarded by a held lock survives calls to arbitrary code (no re-entrancy, lock discipline)")
	}
}

// mentionsEvents: does the expression talk about the call log (calls, callarg, callres, before)?
func mentionsEvents(e Expr) bool {
	switch e := e.(type) {
	case *ECall:
		switch e.Fn {
		case "calls", "callarg", "callres", "before", "panicked":
			return true
		}
		for _, a := range e.Args {
			if mentionsEvents(a) {
				return true
			}
		}
	case *EUnary:
		return mentionsEvents(e.X)
	case *EBinary:
		return mentionsEvents(e.L) || mentionsEvents(e.R)
	case *ESel:
		return mentionsEvents(e.X)
	case *EIndex:
		return mentionsEvents(e.X) || mentionsEvents(e.I)
	case *EQuant:
		return mentionsEvents(e.Body)
	}
	return false
}

// stringers runs the String() methods (defined in oxy) of the values passed in a variadic ...any argument list.
func (x *Exec) stringers(p *Path, args []Val, then func(p *Path), pk panK) {
	var todo []Val
	for _, a := range args {
		if a.K == KSlice {
			todo = append(todo, p.elemStores[a.S]...)
		}
	}
	var run func(p *Path, i int)
	run = func(p *Path, i int) {
		for ; i < len(todo); i++ {
			v := todo[i]
			ms := x.e.prog.MethodSets.MethodSet(v.DynT)
			sel := ms.Lookup(nil, "String")
			if sel == nil {
				continue
			}
			f := x.e.prog.MethodValue(sel)
			if f == nil || f.Pkg == nil || !strings.HasPrefix(f.Pkg.Pkg.Path(), oxyMod) || len(f.Blocks) == 0 || x.onStack(p, f) {
				continue
			}
			if len(p.frames) >= 4 {
				continue
			}
			recv := Val{K: KScalar, T: v.DynT, S: v.S, Label: v.Label}
			if kindOf(v.DynT) != KScalar {
				continue
			}
			x.e.note("loggers may format their arguments: String() of " + v.DynT.String() + " is executed at log calls")
			next := i + 1
			rt := f.Signature.Results()
			if fc := x.e.contractOf(f); fc != nil {
				var rtypes []types.Type
				for j := 0; j < rt.Len(); j++ {
					rtypes = append(rtypes, rt.At(j).Type())
				}
				x.applyContract(p, nil, fc, f, "String", []Val{recv}, rtypes, rt, func(p *Path, _ Val) { run(p, next) }, pk)
				return
			}
			x.inline(p, f, Val{}, []Val{recv}, "String", rt, func(p *Path, _ Val) { run(p, next) }, pk)
			return
		}
		then(p)
	}
	run(p, 0)
}

// extsyncCheck: a mutator of an externally synchronised object may only be called while holding, exclusively,
// the guard of the field through which the object was reached (or on an object this activation created, or from a
// method of an externally synchronised type, which shifts the duty to its own callers).
func (x *Exec) extsyncCheck(p *Path, callee *ssa.Function, recv Val) {
	sig := callee.Signature
	if sig.Recv() == nil {
		return
	}
	x.extsyncCheckNamed(p, typeKey(sig.Recv().Type()), callee.Name(), recv)
}

// extsyncCheckNamed: method `method` of the externally synchronised type tk is called on recv.
func (x *Exec) extsyncCheckNamed(p *Path, tk, method string, recv Val) {
	tc := x.e.cs.Types[tk]
	if tc == nil || !tc.ExtSync || !(tc.Mutators[method] || tc.Readers[method]) {
		return
	}
	write := tc.Mutators[method] // a reader needs the protecting lock in any mode, a mutator exclusively
	calleeName := method
	name := "extsync:" + method
	if recv.K == KScalar && x.isFreshObj(p, recv.S) {
		return
	}
	// delegation from a method of an externally synchronised type on its own component
	for _, fr := range p.frames {
		if r := fr.fn.Signature.Recv(); r != nil {
			if otc := x.e.cs.Types[typeKey(r.Type())]; otc != nil && otc.ExtSync {
				x.oblige(p, "guard", name, "true", []string{"C09"}, "delegated by a method of an externally synchronised type")
				return
			}
		}
	}
	if recv.Own == nil {
		// parameter or unknown provenance: the duty is the caller's
		if recv.Label != "" && x.params[recv.Label].S != recv.S {
			// result of a call made by this activation (a constructor): not shared yet
			x.oblige(p, "guard", name, "true", []string{"C09"}, "receiver was obtained from a call in this activation")
			return
		}
		if recv.Label != "" && x.params[recv.Label].S == recv.S {
			x.oblige(p, "guard", name, "true", []string{"C09"}, "receiver is a parameter: the caller synchronises")
			return
		}
		x.oblige(p, "guard", name, "false", []string{"C09"}, "mutator "+calleeName+" called on an externally synchronised "+shortTypeKey(tk)+" of unknown provenance")
		return
	}
	otc := x.e.cs.Types[recv.Own.TKey]
	var mu string
	var ok bool
	if otc != nil {
		mu, ok = otc.Guarded[recv.Own.Field]
		if !ok {
			mu, ok = otc.Protects[recv.Own.Field]
		}
	}
	if !ok {
		x.oblige(p, "guard", name, "false", []string{"C09"}, "mutator "+calleeName+" called on "+shortTypeKey(recv.Own.TKey)+"."+recv.Own.Field+" ("+shortTypeKey(tk)+", externally synchronised) which no lock guards")
		return
	}
	if x.isFreshObj(p, recv.Own.Obj) {
		x.oblige(p, "guard", name, "true", []string{"C09"}, "the owning object was created by this activation")
		return
	}
	x.lockCheck(p, recv.Own.TKey, mu, recv.Own.Obj, recv.Own.Field+"."+calleeName+"()", write)
}

// frameGoalAt: like frameGoal, for the single object obj.
func frameGoalAt(srt, cur, was, allowed string, defs []string, obj string) string {
	defOf := map[string]string{}
	for _, d := range defs {
		if strings.HasPrefix(d, "(= |") {
			i := strings.Index(d[3:], "| ")
			if i > 0 {
				defOf[d[3:3+i+1]] = d[3+i+2 : len(d)-1]
			}
		}
	}
	t := allowed
	var written []string
	for t != was {
		def, ok := defOf[t]
		if !ok {
			return "true"
		}
		parts := splitSexp(def)
		if len(parts) != 4 || parts[0] != "store" {
			return "true"
		}
		written = append(written, parts[2])
		t = parts[1]
	}
	var anyWritten []string
	for _, w := range written {
		anyWritten = append(anyWritten, eq(w, obj))
	}
	return or(append(anyWritten, eq(sel(cur, obj), sel(was, obj)))...)
}

// implicitMayPanic: an oxy function under contract that is neither declared `maypanic` nor `nopanic` is treated as
// possibly panicking at its call sites when its body (or a body inlined into it, or a contracted callee, transitively)
// contains a panic statement or a call that may panic: arbitrary code, or an interface / function-type / extern contract
// declared `maypanic`. The callee's ensures_panic clauses describe the state on that exit.
func (x *Exec) implicitMayPanic(fc *FuncContract) bool {
	if fc == nil || fc.Kind != "func" || fc.NoPanic || fc.Trusted {
		return false
	}
	fn := x.e.funcs[fc.Pkg+"."+fc.Name]
	if fn == nil {
		return false
	}
	if x.e.mayPanicMemo == nil {
		x.e.mayPanicMemo = map[*ssa.Function]int{}
	}
	return x.fnMayPanic(fn, 0)
}

func (x *Exec) fnMayPanic(fn *ssa.Function, depth int) bool {
	memo := x.e.mayPanicMemo
	if v, ok := memo[fn]; ok {
		return v == 1 // 2 = in progress (cycle): no
	}
	if depth > 8 || len(fn.Blocks) == 0 {
		return false
	}
	memo[fn] = 2
	res := false
	callMay := func(cc *ssa.CallCommon) bool {
		if _, ok := cc.Value.(*ssa.Builtin); ok {
			return false
		}
		callee := cc.StaticCallee()
		if callee == nil {
			if cc.IsInvoke() {
				if x.isNoopInvoke(cc) {
					return false
				}
				if ic := x.ifaceContract(cc); ic != nil {
					return ic.MayPanic
				}
				return true
			}
			if ft := x.functypeContract(cc); ft != nil {
				return ft.MayPanic
			}
			if mc, ok := cc.Value.(*ssa.MakeClosure); ok {
				if f2, ok := mc.Fn.(*ssa.Function); ok {
					return x.fnMayPanic(f2, depth+1)
				}
			}
			return true
		}
		name := callee.String()
		if ec := x.e.cs.Externs[name]; ec != nil {
			return ec.MayPanic
		}
		if lookupModel(name) != nil {
			return false
		}
		if c2 := x.e.contractOf(callee); c2 != nil {
			if c2.MayPanic {
				return true
			}
			if c2.NoPanic || c2.Trusted {
				return false
			}
			return x.fnMayPanic(callee, depth+1)
		}
		if x.inlinable(callee) {
			return x.fnMayPanic(callee, depth+1)
		}
		if x.isPureExternal(callee) {
			return false
		}
		return true
	}
	for _, b := range fn.Blocks {
		for _, in := range b.Instrs {
			switch in := in.(type) {
			case *ssa.Panic:
				res = true
			case *ssa.Call:
				if callMay(&in.Call) {
					res = true
				}
			case *ssa.Defer:
				if callMay(&in.Call) {
					res = true
				}
			}
			if res {
				break
			}
		}
		if res {
			break
		}
	}
	if res {
		memo[fn] = 1
	} else {
		memo[fn] = 0
	}
	return res
}
