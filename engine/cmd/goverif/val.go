package main

// Symbolic values, sorts and the per-path heap.

import (
	"fmt"
	"go/constant"
	"go/types"
	"math/big"
	"sort"
	"strings"

	"golang.org/x/tools/go/ssa"
)

type Kind int

const (
	KScalar Kind = iota // S: one SMT term (Int, Bool, Real, Str)
	KSlice              // S=arr, Off, Len
	KIface              // Tag, S=payload
	KStruct             // Fs
	KTuple              // Fs
	KAddr               // A
	KFunc               // S=id term, Fn/Binds if statically known
	KGhostMap           // S: array term; GK,GV sorts
	KIter               // map iterator: A.Cell names the visited-set cell
)

type Val struct {
	K     Kind
	T     types.Type
	S     string
	Off   string
	Len   string
	Tag   string
	Fs    []Val
	A     *Addr
	Fn    *ssa.Function
	Binds []Val
	Label string // provenance, e.g. "cl.next"
	Own   *Owner // where this value was loaded from (for lock identity)
	GK    string
	GV    string
	Sort  string // sort of S for scalars when T is nil (spec values)
	DynT  types.Type // interface values: dynamic type when statically known (MakeInterface)
	Undef bool   // undefined on this path (e.g. result of a call that did not happen): comparisons are unconstrained
}

type Owner struct {
	Obj   string // SMT term of the owning object
	TKey  string // struct type key
	Field string
}

type AddrKind int

const (
	AField AddrKind = iota
	AElem
	ALocal
	AGlobal
)

type Addr struct {
	Kind  AddrKind
	Obj   string     // AField: object ref term; AElem: backing array term
	TKey  string     // AField: struct type key
	Field string     // AField: field name
	Idx   string     // AElem: absolute index term
	ET    types.Type // element / field / cell type
	Cell  string     // ALocal: cell id;  AGlobal: heap key
	Label string
	Ghost bool
	Via   *Owner // AField: the field the base object was loaded from, if known (provenance)
}

const zeroTimeNs = "(- 62135596800000000000)"

func isTimeType(t types.Type) bool {
	if t == nil {
		return false
	}
	t = types.Unalias(t)
	if n, ok := t.(*types.Named); ok {
		o := n.Obj()
		return o.Pkg() != nil && o.Pkg().Path() == "time" && o.Name() == "Time"
	}
	return false
}

func isMutexType(t types.Type) bool {
	t = types.Unalias(t)
	if p, ok := t.(*types.Pointer); ok {
		t = types.Unalias(p.Elem())
	}
	if n, ok := t.(*types.Named); ok {
		o := n.Obj()
		return o.Pkg() != nil && o.Pkg().Path() == "sync" && (o.Name() == "Mutex" || o.Name() == "RWMutex")
	}
	return false
}

// typeKey is the stable name of a (named) struct type used in heap keys.
func typeKey(t types.Type) string {
	t = types.Unalias(t)
	if p, ok := t.(*types.Pointer); ok {
		t = types.Unalias(p.Elem())
	}
	if n, ok := t.(*types.Named); ok {
		o := n.Obj()
		if o.Pkg() != nil {
			return o.Pkg().Path() + "." + o.Name()
		}
		return o.Name()
	}
	return types.TypeString(t, nil)
}

func shortTypeKey(k string) string {
	k = strings.ReplaceAll(k, "github.com/vulcand/oxy/v2/", "")
	return k
}

// boxField is the pseudo field under which the value a pointer to a non-struct type points to is kept in the heap
// (one array per pointee type, like a struct with a single field).
const boxField = "*"

// boxElem: the pointee type of a pointer to a non-struct, non-time type (nil otherwise).
func boxElem(t types.Type) types.Type {
	if t == nil {
		return nil
	}
	pt, ok := t.Underlying().(*types.Pointer)
	if !ok {
		return nil
	}
	if _, isStruct := pt.Elem().Underlying().(*types.Struct); isStruct {
		return nil
	}
	return pt.Elem()
}

func structOf(t types.Type) *types.Struct {
	if p, ok := t.Underlying().(*types.Pointer); ok {
		t = p.Elem()
	}
	s, _ := t.Underlying().(*types.Struct)
	return s
}

func kindOf(t types.Type) Kind {
	if t == nil {
		return KScalar
	}
	if isTimeType(t) {
		return KScalar
	}
	switch u := t.Underlying().(type) {
	case *types.Basic, *types.Pointer, *types.Map, *types.Chan:
		return KScalar
	case *types.Signature:
		return KFunc
	case *types.Slice:
		return KSlice
	case *types.Interface:
		return KIface
	case *types.Struct:
		return KStruct
	case *types.Tuple:
		return KTuple
	case *types.Array:
		_ = u
		return KScalar // arrays by value are opaque
	}
	return KScalar
}

func (e *Engine) sortOf(t types.Type) string {
	if t == nil {
		return "Int"
	}
	if isTimeType(t) {
		return "Int"
	}
	switch u := t.Underlying().(type) {
	case *types.Basic:
		switch {
		case u.Info()&types.IsBoolean != 0:
			return "Bool"
		case u.Info()&types.IsInteger != 0:
			return "Int"
		case u.Info()&types.IsFloat != 0:
			return "Real"
		case u.Info()&types.IsString != 0:
			return e.strSort()
		case u.Kind() == types.UnsafePointer:
			return "Int"
		case u.Kind() == types.UntypedNil:
			return "Int"
		}
	}
	return "Int"
}

func (e *Engine) strSort() string {
	if e.stringMode {
		return "String"
	}
	return "Str"
}

// Leaf describes one SMT-level component of a Go value of some type.
type Leaf struct {
	Path string // e.g. "", ".arr", ".tag", ".URL.Host"
	Sort string
}

func (e *Engine) leaves(t types.Type) []Leaf {
	switch kindOf(t) {
	case KSlice:
		return []Leaf{{".arr", "Int"}, {".off", "Int"}, {".len", "Int"}}
	case KIface:
		return []Leaf{{".tag", "Int"}, {".val", "Int"}}
	case KFunc:
		return []Leaf{{"", "Int"}}
	case KStruct:
		st := t.Underlying().(*types.Struct)
		var out []Leaf
		for i := 0; i < st.NumFields(); i++ {
			f := st.Field(i)
			for _, l := range e.leaves(f.Type()) {
				out = append(out, Leaf{"." + f.Name() + l.Path, l.Sort})
			}
		}
		return out
	case KTuple:
		tt := t.(*types.Tuple)
		var out []Leaf
		for i := 0; i < tt.Len(); i++ {
			for _, l := range e.leaves(tt.At(i).Type()) {
				out = append(out, Leaf{fmt.Sprintf(".%d%s", i, l.Path), l.Sort})
			}
		}
		return out
	}
	return []Leaf{{"", e.sortOf(t)}}
}

// flatten returns the SMT terms of v in leaf order of its type.
func (e *Engine) flatten(v Val) []string {
	switch v.K {
	case KSlice:
		return []string{v.S, v.Off, v.Len}
	case KIface:
		return []string{v.Tag, v.S}
	case KStruct, KTuple:
		var out []string
		for _, f := range v.Fs {
			out = append(out, e.flatten(f)...)
		}
		return out
	case KAddr:
		return []string{"0"} // addresses are not first-class; stored as opaque
	}
	return []string{v.S}
}

// unflatten builds a Val of type t from leaf terms (consumes from ts).
func (e *Engine) unflatten(t types.Type, ts *[]string) Val {
	take := func() string { s := (*ts)[0]; *ts = (*ts)[1:]; return s }
	switch kindOf(t) {
	case KSlice:
		return Val{K: KSlice, T: t, S: take(), Off: take(), Len: take()}
	case KIface:
		return Val{K: KIface, T: t, Tag: take(), S: take()}
	case KFunc:
		return Val{K: KFunc, T: t, S: take()}
	case KStruct:
		st := t.Underlying().(*types.Struct)
		v := Val{K: KStruct, T: t}
		for i := 0; i < st.NumFields(); i++ {
			v.Fs = append(v.Fs, e.unflatten(st.Field(i).Type(), ts))
		}
		return v
	case KTuple:
		tt := t.(*types.Tuple)
		v := Val{K: KTuple, T: t}
		for i := 0; i < tt.Len(); i++ {
			v.Fs = append(v.Fs, e.unflatten(tt.At(i).Type(), ts))
		}
		return v
	}
	return Val{K: KScalar, T: t, S: take()}
}

func zeroOfSort(s string) string {
	switch s {
	case "Bool":
		return "false"
	case "Real":
		return "0.0"
	case "String":
		return `""`
	case "Str":
		return "str_empty"
	}
	return "0"
}

func (e *Engine) zeroVal(t types.Type) Val {
	if isTimeType(t) {
		return Val{K: KScalar, T: t, S: zeroTimeNs}
	}
	var ts []string
	for _, l := range e.leaves(t) {
		ts = append(ts, zeroOfSort(l.Sort))
	}
	return e.unflatten(t, &ts)
}

func scalar(t types.Type, s string) Val { return Val{K: KScalar, T: t, S: s} }

func boolVal(s string) Val { return Val{K: KScalar, T: types.Typ[types.Bool], S: s, Sort: "Bool"} }
func intVal(s string) Val  { return Val{K: KScalar, T: types.Typ[types.Int], S: s, Sort: "Int"} }

// ---- SMT term helpers -------------------------------------------------

func smtNum(n *big.Int) string {
	if n.Sign() < 0 {
		return "(- " + new(big.Int).Neg(n).String() + ")"
	}
	return n.String()
}

func smtInt(n int64) string { return smtNum(big.NewInt(n)) }

func and(xs ...string) string {
	var ys []string
	for _, x := range xs {
		if x == "true" || x == "" {
			continue
		}
		if x == "false" {
			return "false"
		}
		ys = append(ys, x)
	}
	switch len(ys) {
	case 0:
		return "true"
	case 1:
		return ys[0]
	}
	return "(and " + strings.Join(ys, " ") + ")"
}

func or(xs ...string) string {
	var ys []string
	for _, x := range xs {
		if x == "false" || x == "" {
			continue
		}
		if x == "true" {
			return "true"
		}
		ys = append(ys, x)
	}
	switch len(ys) {
	case 0:
		return "false"
	case 1:
		return ys[0]
	}
	return "(or " + strings.Join(ys, " ") + ")"
}

func not(x string) string {
	switch x {
	case "true":
		return "false"
	case "false":
		return "true"
	}
	if strings.HasPrefix(x, "(not ") && balanced(x[5:len(x)-1]) {
		return x[5 : len(x)-1]
	}
	return "(not " + x + ")"
}

func balanced(s string) bool {
	d := 0
	for _, c := range s {
		if c == '(' {
			d++
		}
		if c == ')' {
			d--
			if d < 0 {
				return false
			}
		}
	}
	return d == 0
}

func implies(a, b string) string {
	if a == "true" {
		return b
	}
	if a == "false" || b == "true" {
		return "true"
	}
	return "(=> " + a + " " + b + ")"
}

func eq(a, b string) string {
	if a == b {
		return "true"
	}
	if isNonNegLit(a) && isNonNegLit(b) {
		return "false" // distinct numerals
	}
	return "(= " + a + " " + b + ")"
}

func ite(c, a, b string) string {
	if c == "true" {
		return a
	}
	if c == "false" {
		return b
	}
	if a == b {
		return a
	}
	return "(ite " + c + " " + a + " " + b + ")"
}

func sel(a, i string) string     { return "(select " + a + " " + i + ")" }
func store(a, i, v string) string { return "(store " + a + " " + i + " " + v + ")" }

// Go integer division / remainder (truncated) in terms of SMT div/mod (euclidean).
func goDiv(a, b string) string {
	if isNonNegLit(a) {
		return "(div " + a + " " + b + ")"
	}
	return "(ite (>= " + a + " 0) (div " + a + " " + b + ") (- (div (- " + a + ") " + b + ")))"
}

func goMod(a, b string) string {
	if isNonNegLit(a) {
		return "(mod " + a + " " + b + ")"
	}
	return "(ite (>= " + a + " 0) (mod " + a + " " + b + ") (- (mod (- " + a + ") " + b + ")))"
}

func isNonNegLit(a string) bool {
	if a == "" {
		return false
	}
	for _, c := range a {
		if c < '0' || c > '9' {
			return false
		}
	}
	return true
}

func smtStringLit(s string) string {
	var sb strings.Builder
	sb.WriteByte('"')
	for _, c := range []byte(s) {
		switch {
		case c == '"':
			sb.WriteString(`""`)
		case c < 32 || c > 126 || c == '\\':
			fmt.Fprintf(&sb, `\u{%x}`, c)
		default:
			sb.WriteByte(c)
		}
	}
	sb.WriteByte('"')
	return sb.String()
}

// constVal turns an SSA constant into a Val.
func (e *Engine) constVal(c *ssa.Const) Val {
	t := c.Type()
	if c.Value == nil {
		return e.zeroVal(t)
	}
	switch c.Value.Kind() {
	case constant.Bool:
		if constant.BoolVal(c.Value) {
			return scalar(t, "true")
		}
		return scalar(t, "false")
	case constant.String:
		return scalar(t, e.strLit(constant.StringVal(c.Value)))
	case constant.Int:
		n, _ := new(big.Int).SetString(c.Value.ExactString(), 10)
		if n == nil {
			n = big.NewInt(0)
		}
		if e.sortOf(t) == "Real" {
			return scalar(t, smtReal(new(big.Rat).SetInt(n)))
		}
		return scalar(t, smtNum(n))
	case constant.Float:
		r, ok := new(big.Rat).SetString(c.Value.ExactString())
		if !ok {
			f, _ := constant.Float64Val(c.Value)
			r = new(big.Rat).SetFloat64(f)
		}
		if e.sortOf(t) == "Int" {
			return scalar(t, smtNum(new(big.Int).Quo(r.Num(), r.Denom())))
		}
		return scalar(t, smtReal(r))
	}
	return e.zeroVal(t)
}

func smtReal(r *big.Rat) string {
	n, d := r.Num(), r.Denom()
	neg := n.Sign() < 0
	an := new(big.Int).Abs(n)
	s := an.String() + ".0"
	if d.Cmp(big.NewInt(1)) != 0 {
		s = "(/ " + an.String() + ".0 " + d.String() + ".0)"
	}
	if neg {
		return "(- " + s + ")"
	}
	return s
}

// strLit returns the term for a string literal.
func (e *Engine) strLit(s string) string {
	if e.stringMode {
		return smtStringLit(s)
	}
	if s == "" {
		return "str_empty"
	}
	if n, ok := e.strLits[s]; ok {
		return n
	}
	n := fmt.Sprintf("|str:%d:%s|", len(e.strLits), sanitize(s))
	e.strLits[s] = n
	return n
}

func sanitize(s string) string {
	var sb strings.Builder
	for _, c := range s {
		if c == '|' || c == '\\' || c < 32 || c > 126 {
			sb.WriteByte('_')
		} else {
			sb.WriteRune(c)
		}
		if sb.Len() > 24 {
			break
		}
	}
	return sb.String()
}

// ---- per-path state ----------------------------------------------------

type Snap struct {
	heap  map[string]string
	epoch int
	brk   string
	clock string
}

type Event struct {
	Key    string // static callee name or receiver label + method
	Args   []Val
	Res    []Val
	Panics bool
}

type deferRec struct {
	call *ssa.CallCommon
	args []Val
	fnv  Val
	site ssa.Instruction
}

type FrameState struct {
	fn        *ssa.Function
	env       map[ssa.Value]Val
	names     map[string]Val
	defers    []deferRec
	depth     int
	id        int
	loopMeas  map[*ssa.BasicBlock][]string // measure at loop head
	inLoop    map[*ssa.BasicBlock]bool
	loopEvents map[*ssa.BasicBlock]int
	loopIter  map[*ssa.BasicBlock]string
	recvLabel string
}

type Path struct {
	id      int
	assumes []string
	heap    map[string]string
	epoch   int
	cells   map[string]Val
	escaped map[string]bool
	locks   map[string]string // lock identity -> "w" | "r"
	lockObj map[string]lockRef
	events  []Event
	frames  []*FrameState
	brk     string
	clock   string // last clock reading (monotone)
	panicking bool // unwinding after a panic (deferred calls running)
	recovered bool // a deferred call has recovered the current panic
	nonnil  map[string]bool
	oldSnap *Snap // entry (or post-lock for atomic functions)
	atomicTaken bool
	trace   []string
	dead    bool
	notes   []string
	elemStores map[string][]Val // values stored into freshly allocated arrays (variadic argument lists)
	private map[string]string // struct objects allocated by this activation that no other code can reach yet: term -> type key
}

type lockRef struct {
	owner Owner
	t     types.Type
}

func (p *Path) clone(newID int) *Path {
	q := &Path{id: newID, epoch: p.epoch, brk: p.brk, clock: p.clock, oldSnap: p.oldSnap, atomicTaken: p.atomicTaken, panicking: p.panicking, recovered: p.recovered}
	q.assumes = append([]string(nil), p.assumes...)
	q.trace = append([]string(nil), p.trace...)
	q.notes = append([]string(nil), p.notes...)
	q.events = append([]Event(nil), p.events...)
	q.elemStores = make(map[string][]Val, len(p.elemStores))
	for k, v := range p.elemStores {
		q.elemStores[k] = v
	}
	q.heap = make(map[string]string, len(p.heap))
	for k, v := range p.heap {
		q.heap[k] = v
	}
	q.cells = make(map[string]Val, len(p.cells))
	for k, v := range p.cells {
		q.cells[k] = v
	}
	q.private = make(map[string]string, len(p.private))
	for k, v := range p.private {
		q.private[k] = v
	}
	q.escaped = make(map[string]bool, len(p.escaped))
	for k, v := range p.escaped {
		q.escaped[k] = v
	}
	q.locks = make(map[string]string, len(p.locks))
	for k, v := range p.locks {
		q.locks[k] = v
	}
	q.lockObj = make(map[string]lockRef, len(p.lockObj))
	for k, v := range p.lockObj {
		q.lockObj[k] = v
	}
	q.nonnil = make(map[string]bool, len(p.nonnil))
	for k, v := range p.nonnil {
		q.nonnil[k] = v
	}
	for _, f := range p.frames {
		g := &FrameState{fn: f.fn, depth: f.depth, id: f.id, recvLabel: f.recvLabel}
		g.env = make(map[ssa.Value]Val, len(f.env))
		for k, v := range f.env {
			g.env[k] = v
		}
		g.names = make(map[string]Val, len(f.names))
		for k, v := range f.names {
			g.names[k] = v
		}
		g.defers = append([]deferRec(nil), f.defers...)
		g.loopMeas = make(map[*ssa.BasicBlock][]string, len(f.loopMeas))
		for k, v := range f.loopMeas {
			g.loopMeas[k] = v
		}
		g.inLoop = make(map[*ssa.BasicBlock]bool, len(f.inLoop))
		if f.loopIter != nil {
			g.loopIter = make(map[*ssa.BasicBlock]string, len(f.loopIter))
			for k, v := range f.loopIter {
				g.loopIter[k] = v
			}
		}
		if f.loopEvents != nil {
			g.loopEvents = make(map[*ssa.BasicBlock]int, len(f.loopEvents))
			for k, v := range f.loopEvents {
				g.loopEvents[k] = v
			}
		}
		for k, v := range f.inLoop {
			g.inLoop[k] = v
		}
		q.frames = append(q.frames, g)
	}
	return q
}

func (p *Path) top() *FrameState { return p.frames[len(p.frames)-1] }

func (p *Path) snap() *Snap {
	h := make(map[string]string, len(p.heap))
	for k, v := range p.heap {
		h[k] = v
	}
	return &Snap{heap: h, epoch: p.epoch, brk: p.brk, clock: p.clock}
}

func (p *Path) assume(f string) {
	if f == "true" || f == "" {
		return
	}
	p.assumes = append(p.assumes, f)
}

// heapKeys returns the keys present in the path's heap map, sorted.
func (p *Path) heapKeys() []string {
	ks := make([]string, 0, len(p.heap))
	for k := range p.heap {
		ks = append(ks, k)
	}
	sort.Strings(ks)
	return ks
}
