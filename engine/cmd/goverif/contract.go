package main

// Contract files: /repo/<pkg>/verif_contracts.go (//go:build verif), comment-only.
// Every line that matters starts with "//@". Grammar (line oriented):
//
//   //@ spec NAME(a int, b int) int            uninterpreted spec function
//   //@ pred NAME(a T, ...) = EXPR             macro predicate, expanded at use in the current state
//   //@ axiom NAME: EXPR                       assumed in every obligation of the package (listed as trusted)
//   //@ lemma NAME: EXPR                       proved as its own obligation, then usable as axiom
//   //@ type T
//   //@   immutable f g h
//   //@   guarded_by mu: f g
//   //@   ghost NAME TYPE [threadlocal|guarded_by mu]
//   //@   lockinv mu (self): EXPR
//   //@   extsync                              externally synchronised type (C09)
//   //@ func NAME                              SSA-style name: (*T).m, T.m, f, f$1
//   //@   props C01 C02
//   //@   atomic recv.mu                       body is one critical section of that mutex
//   //@   holds recv.mu                        caller must hold the lock
//   //@   requires [{C01}] [label:] EXPR
//   //@   ensures / ensures_panic / ghost_ensures   same shape
//   //@   modifies TARGET, TARGET              x.f | x.f[k] | elems(x.f) | T.f | mapof(x.f) | everything
//   //@   loop N invariant [label:] EXPR
//   //@   loop N decreases EXPR[, EXPR]
//   //@   assume [label:] EXPR                 unchecked assumption (reported)
//   //@   nopanic                              callers need not consider a panic exit
//   //@   trusted                              contract assumed, body not verified (reported)
//   //@ iface pkg.I.Method / functype pkg.F    same clauses; parameter names given by: params a b c
//
// Continuation: a //@ line whose first word is not a keyword continues the previous clause.

import (
	"bufio"
	"fmt"
	"os"
	"path/filepath"
	"regexp"
	"strings"
)

type Clause struct {
	Kind  string // requires ensures ensures_panic ghost_ensures invariant assume axiom lemma lockinv
	Label string
	Props []string
	Src   string
	E     Expr
	File  string
	Line  int
}

type LoopContract struct {
	Invariants []*Clause
	Iteration  []*Clause // checked at every back edge over the call log of the completed iteration only
	Decreases  []Expr
	DecSrc     string
}

type FuncContract struct {
	Pkg        string // package path
	Name       string // SSA-relative name, e.g. (*ConnLimiter).acquire
	Kind       string // func | iface | functype
	Props      []string
	Atomic     string // expression text of the mutex, e.g. cl.mutex
	Holds      []string
	Requires   []*Clause
	Ensures    []*Clause
	EnsPanic   []*Clause
	GhostEns   []*Clause
	Assumes    []*Clause
	AtCalls    map[string][]*Clause
	AfterCalls map[string][]*Clause // assumptions about the results of calls (listed as trusted)
	Modifies   []string
	Loops      map[int]*LoopContract
	NoPanic    bool
	HoldsRead  map[string]bool // subset of Holds held in read mode only
	MayPanic   bool
	NoOverflow bool // every integer product computed by the function (inlined helpers included) fits in 64 bits: obligation
	Trusted    bool
	Pure       bool
	ParamNames []string // for iface / functype contracts
	Strings    bool     // use SMT strings in this function
	NoInline   bool
	ReadsClock bool
	NoAxioms   map[string]bool
	OnlyAxioms map[string]bool
	Wiring     []string // static checks: Operators.AND=and  Functions["Name"]=fn
	File       string
	Line       int
}

type GhostField struct {
	Name        string
	Type        string // int | bool | map[string]int | ...
	ThreadLocal bool
	GuardedBy   string
}

type TypeContract struct {
	Pkg        string
	Name       string
	Immutable  map[string]bool
	Stable     map[string]bool   // fields assumed untouched by arbitrary callees (ownership assumption), no write check
	Guarded    map[string]string // field -> mutex field
	Ghost      map[string]*GhostField
	LockInv    map[string][]*LockInv // mutex field -> invariants
	Invs       []*LockInv            // type invariants of thread-confined objects: hold between method calls
	Guards     map[string][]string   // mutex field -> foreign locations (T.f, pkg.T.f, elems(T)) it also protects
	Protects   map[string]string     // field -> mutex: the (externally synchronised) object the field points to is protected by mu
	Sinks      map[string]string     // field -> mutex ("" = none declared): shared sinks written by concurrent requests
	ExtSync    bool
	Shared     bool // instances serve concurrent requests: undeclared field writes are reported in every property
	Mutators   map[string]bool // methods that mutate an extsync object
	Readers    map[string]bool // methods that read an extsync object: the protecting lock is needed in any mode
	SetupOnly  map[string]bool // methods that are set-up calls (may write immutable fields)
	InsertOnly map[string]bool // map fields: entries are only ever added
}

type LockInv struct {
	Self string
	C    *Clause
}

type SpecFunc struct {
	Pkg    string
	Name   string
	Params []QVar
	Result string
	Reads  []string // heap locations the function depends on: T.f | elems(T) | mapof(T)
}

type PredDef struct {
	Pkg    string
	Name   string
	Params []QVar
	Body   Expr
	Src    string
}

type Contracts struct {
	Funcs      map[string]*FuncContract // key: pkgpath + "." + Name
	Types      map[string]*TypeContract // key: pkgpath + "." + Name
	Specs      map[string]*SpecFunc     // key: Name (global namespace)
	Preds      map[string]*PredDef
	Axioms     map[string][]*Clause // per package
	Lemmas     map[string][]*Clause
	Theorems   map[string][]*Clause     // proved on their own (pure arithmetic), never assumed anywhere: bridge lemmas
	GlobalInv  map[string][]*Clause     // pkgpath.name -> invariants
	StableKeys [][2]string              // (pkg, descriptor): heap locations never written after construction (kept across arbitrary calls)
	Ifaces     map[string]*FuncContract // key: pkg.I.Method
	Externs    map[string]*FuncContract // key: ssa function String(), e.g. (*net/http.Request).Cookie
	Files      []string
	Nclause    int
}

var keywordRe = regexp.MustCompile(`^(spec|pred|axiom|lemma|theorem|globalinv|stablekeys|type|func|iface|functype|extern|props|atomic|holds_read|holds|at_call|after_call|requires|ensures|ensures_panic|ghost_ensures|modifies|loop|assume|nopanic|maypanic|trusted|pure|readsclock|noaxioms|onlyaxioms|wiring|params|immutable|stable|guards|sink|protects|guarded_by|ghost|lockinv|extsync|mutators|readers|insert_only|setup|shared|inv|strings|noinline|nooverflow)\b`)

var labelRe = regexp.MustCompile(`^([A-Za-z_][A-Za-z_0-9]*):([^:]|$)`)
var propsRe = regexp.MustCompile(`^\{([A-Z0-9, ]+)\}\s*`)

func NewContracts() *Contracts {
	return &Contracts{
		Funcs: map[string]*FuncContract{}, Types: map[string]*TypeContract{}, Specs: map[string]*SpecFunc{},
		Preds: map[string]*PredDef{}, GlobalInv: map[string][]*Clause{}, Axioms: map[string][]*Clause{}, Lemmas: map[string][]*Clause{}, Theorems: map[string][]*Clause{}, Ifaces: map[string]*FuncContract{}, Externs: map[string]*FuncContract{},
	}
}

type rawLine struct {
	text string
	line int
}

// LoadContractFile parses one contract file for package path pkg.
func (cs *Contracts) LoadContractFile(path, pkg string) error {
	f, err := os.Open(path)
	if err != nil {
		return err
	}
	defer f.Close()
	cs.Files = append(cs.Files, path)
	var lines []rawLine
	sc := bufio.NewScanner(f)
	sc.Buffer(make([]byte, 1<<20), 1<<20)
	n := 0
	for sc.Scan() {
		n++
		t := strings.TrimSpace(sc.Text())
		if !strings.HasPrefix(t, "//@") {
			continue
		}
		t = strings.TrimSpace(strings.TrimPrefix(t, "//@"))
		if t == "" || strings.HasPrefix(t, "#") {
			continue
		}
		if keywordRe.MatchString(t) || len(lines) == 0 {
			lines = append(lines, rawLine{t, n})
		} else {
			// a continuation line; after a block header (type / func / extern / iface / functype) or an attribute
			// without arguments it can only be a misspelt keyword, which would silently drop the rest of the block
			prev := lines[len(lines)-1].text
			switch keywordRe.FindString(prev) {
			case "type", "func", "extern", "iface", "functype", "trusted", "nopanic", "maypanic", "shared", "extsync", "strings", "readsclock", "pure", "noinline", "nooverflow":
				return fmt.Errorf("%s:%d: unknown keyword in %q (after %q)", path, n, t, prev)
			}
			lines[len(lines)-1].text += " " + t
		}
	}
	var curF *FuncContract
	var curT *TypeContract
	fail := func(l rawLine, f string, a ...interface{}) error {
		return fmt.Errorf("%s:%d: %s", path, l.line, fmt.Sprintf(f, a...))
	}
	mkClause := func(kind string, rest string, l rawLine) (*Clause, error) {
		c := &Clause{Kind: kind, File: path, Line: l.line}
		if m := propsRe.FindStringSubmatch(rest); m != nil {
			for _, p := range strings.Split(m[1], ",") {
				c.Props = append(c.Props, strings.TrimSpace(p))
			}
			rest = rest[len(m[0]):]
		}
		if m := labelRe.FindStringSubmatch(rest); m != nil {
			c.Label = m[1]
			rest = strings.TrimSpace(rest[len(m[1])+1:])
		}
		c.Src = rest
		e, err := ParseExpr(rest)
		if err != nil {
			return nil, fail(l, "%v", err)
		}
		c.E = e
		cs.Nclause++
		return c, nil
	}
	for _, l := range lines {
		kw := keywordRe.FindString(l.text)
		rest := strings.TrimSpace(l.text[len(kw):])
		switch kw {
		case "spec":
			sf, err := parseSpecSig(rest)
			if err != nil {
				return fail(l, "%v", err)
			}
			sf.Pkg = pkg
			cs.Specs[sf.Name] = sf
			curF, curT = nil, nil
		case "pred":
			i := strings.Index(rest, "=")
			if i < 0 {
				return fail(l, "pred needs '='")
			}
			// find the '=' that follows the closing paren of the signature
			j := strings.Index(rest, ")")
			if j < 0 {
				return fail(l, "pred needs a signature")
			}
			k := strings.Index(rest[j:], "=")
			sf, err := parseSpecSig(strings.TrimSpace(rest[:j+1]) + " bool")
			if err != nil {
				return fail(l, "%v", err)
			}
			body := strings.TrimSpace(rest[j+k+1:])
			e, err := ParseExpr(body)
			if err != nil {
				return fail(l, "%v", err)
			}
			cs.Preds[sf.Name] = &PredDef{Pkg: pkg, Name: sf.Name, Params: sf.Params, Body: e, Src: body}
			curF, curT = nil, nil
		case "stablekeys":
			for _, d := range strings.Fields(strings.ReplaceAll(rest, ",", " ")) {
				cs.StableKeys = append(cs.StableKeys, [2]string{pkg, d})
			}
			curF, curT = nil, nil
		case "globalinv":
			c, err := mkClause(kw, rest, l)
			if err != nil {
				return err
			}
			if c.Label == "" {
				return fail(l, "globalinv NAME: EXPR")
			}
			cs.GlobalInv[pkg+"."+c.Label] = append(cs.GlobalInv[pkg+"."+c.Label], c)
			curF, curT = nil, nil
		case "axiom", "lemma", "theorem":
			c, err := mkClause(kw, rest, l)
			if err != nil {
				return err
			}
			if c.Label == "" {
				return fail(l, "%s needs a name", kw)
			}
			if kw == "axiom" {
				cs.Axioms[pkg] = append(cs.Axioms[pkg], c)
			} else if kw == "theorem" {
				cs.Theorems[pkg] = append(cs.Theorems[pkg], c)
			} else {
				cs.Lemmas[pkg] = append(cs.Lemmas[pkg], c)
			}
			curF, curT = nil, nil
		case "type":
			curT = &TypeContract{Pkg: pkg, Name: rest, Immutable: map[string]bool{}, Stable: map[string]bool{}, Guarded: map[string]string{}, Ghost: map[string]*GhostField{}, LockInv: map[string][]*LockInv{}, Guards: map[string][]string{}, Sinks: map[string]string{}, Protects: map[string]string{}, Mutators: map[string]bool{}, SetupOnly: map[string]bool{}}
			tp := pkg
			name := rest
			if i := strings.LastIndex(rest, "."); i >= 0 { // foreign type: pkgpath.T
				tp, name = rest[:i], rest[i+1:]
				curT.Pkg, curT.Name = tp, name
			}
			cs.Types[tp+"."+name] = curT
			curF = nil
		case "func", "iface", "functype", "extern":
			curF = &FuncContract{Pkg: pkg, Name: rest, Kind: kw, Loops: map[int]*LoopContract{}, File: path, Line: l.line}
			if kw == "func" {
				cs.Funcs[pkg+"."+rest] = curF
			} else if kw == "extern" {
				cs.Externs[rest] = curF
			} else {
				cs.Ifaces[rest] = curF
			}
			curT = nil
		case "immutable":
			if curT == nil {
				return fail(l, "immutable outside type")
			}
			for _, f := range strings.Fields(strings.ReplaceAll(rest, ",", " ")) {
				curT.Immutable[f] = true
			}
		case "stable":
			if curT == nil {
				return fail(l, "stable outside type")
			}
			for _, f := range strings.Fields(strings.ReplaceAll(rest, ",", " ")) {
				curT.Stable[f] = true
			}
		case "sink":
			if curT == nil {
				return fail(l, "sink outside type")
			}
			fs := strings.Fields(rest)
			if len(fs) == 0 {
				return fail(l, "sink FIELD [guarded_by MU]")
			}
			mu := ""
			if len(fs) >= 3 && fs[1] == "guarded_by" {
				mu = fs[2]
			}
			curT.Sinks[fs[0]] = mu
		case "protects":
			if curT == nil {
				return fail(l, "protects outside type")
			}
			i := strings.Index(rest, ":")
			if i < 0 {
				return fail(l, "protects mu: fields")
			}
			for _, f := range strings.Fields(strings.ReplaceAll(rest[i+1:], ",", " ")) {
				curT.Protects[f] = strings.TrimSpace(rest[:i])
			}
		case "guards":
			if curT == nil {
				return fail(l, "guards outside type")
			}
			i := strings.Index(rest, ":")
			if i < 0 {
				return fail(l, "guards mu: T.f ...")
			}
			mu := strings.TrimSpace(rest[:i])
			curT.Guards[mu] = append(curT.Guards[mu], strings.Fields(strings.ReplaceAll(rest[i+1:], ",", " "))...)
		case "guarded_by":
			if curT == nil {
				return fail(l, "guarded_by outside type")
			}
			i := strings.Index(rest, ":")
			if i < 0 {
				return fail(l, "guarded_by mu: fields")
			}
			mu := strings.TrimSpace(rest[:i])
			for _, f := range strings.Fields(strings.ReplaceAll(rest[i+1:], ",", " ")) {
				curT.Guarded[f] = mu
			}
		case "ghost":
			if curT == nil {
				return fail(l, "ghost outside type")
			}
			fs := strings.Fields(rest)
			if len(fs) < 2 {
				return fail(l, "ghost NAME TYPE [threadlocal|guarded_by mu]")
			}
			g := &GhostField{Name: fs[0], Type: fs[1]}
			for i := 2; i < len(fs); i++ {
				if fs[i] == "threadlocal" {
					g.ThreadLocal = true
				}
				if fs[i] == "guarded_by" && i+1 < len(fs) {
					g.GuardedBy = fs[i+1]
					i++
				}
			}
			curT.Ghost[g.Name] = g
		case "lockinv":
			if curT == nil {
				return fail(l, "lockinv outside type")
			}
			m := regexp.MustCompile(`^(\w+)\s*\((\w+)\)\s*:?\s*(.*)$`).FindStringSubmatch(rest)
			if m == nil {
				return fail(l, "lockinv mu (self): EXPR")
			}
			c, err := mkClause("lockinv", m[3], l)
			if err != nil {
				return err
			}
			curT.LockInv[m[1]] = append(curT.LockInv[m[1]], &LockInv{Self: m[2], C: c})
		case "inv":
			if curT == nil {
				return fail(l, "inv outside type")
			}
			m := regexp.MustCompile(`^\((\w+)\)\s*:?\s*(.*)$`).FindStringSubmatch(rest)
			if m == nil {
				return fail(l, "inv (self): EXPR")
			}
			c, err := mkClause("inv", m[2], l)
			if err != nil {
				return err
			}
			curT.Invs = append(curT.Invs, &LockInv{Self: m[1], C: c})
		case "shared":
			if curT == nil {
				return fail(l, "shared outside type")
			}
			curT.Shared = true
		case "extsync":
			if curT == nil {
				return fail(l, "extsync outside type")
			}
			curT.ExtSync = true
		case "mutators":
			if curT == nil {
				return fail(l, "mutators outside type")
			}
			for _, f := range strings.Fields(strings.ReplaceAll(rest, ",", " ")) {
				curT.Mutators[f] = true
			}
		case "readers":
			if curT == nil {
				return fail(l, "readers outside type")
			}
			if curT.Readers == nil {
				curT.Readers = map[string]bool{}
			}
			for _, f := range strings.Fields(strings.ReplaceAll(rest, ",", " ")) {
				curT.Readers[f] = true
			}
		case "insert_only":
			// map fields whose entries are never replaced or deleted while the object is shared (a replaced counter
			// loses the updates made to the old one)
			if curT == nil {
				return fail(l, "insert_only outside type")
			}
			if curT.InsertOnly == nil {
				curT.InsertOnly = map[string]bool{}
			}
			for _, f := range strings.Fields(strings.ReplaceAll(rest, ",", " ")) {
				curT.InsertOnly[f] = true
			}
		case "setup":
			if curT == nil {
				return fail(l, "setup outside type")
			}
			for _, f := range strings.Fields(strings.ReplaceAll(rest, ",", " ")) {
				curT.SetupOnly[f] = true
			}
		default:
			if curF == nil {
				return fail(l, "%s outside func", kw)
			}
			switch kw {
			case "props":
				curF.Props = append(curF.Props, strings.Fields(strings.ReplaceAll(rest, ",", " "))...)
			case "atomic":
				curF.Atomic = rest
			case "holds":
				curF.Holds = append(curF.Holds, rest)
			case "holds_read":
				// the caller holds the lock at least in read mode; the function may only read what it guards
				curF.Holds = append(curF.Holds, rest)
				if curF.HoldsRead == nil {
					curF.HoldsRead = map[string]bool{}
				}
				curF.HoldsRead[rest] = true
			case "nopanic":
				curF.NoPanic = true
			case "nooverflow":
				curF.NoOverflow = true
			case "maypanic":
				curF.MayPanic = true
			case "trusted":
				curF.Trusted = true
			case "pure":
				curF.Pure = true
			case "readsclock":
				curF.ReadsClock = true
			case "wiring":
				curF.Wiring = append(curF.Wiring, strings.Fields(rest)...)
			case "onlyaxioms":
				if curF.OnlyAxioms == nil {
					curF.OnlyAxioms = map[string]bool{}
				}
				for _, a := range strings.Fields(strings.ReplaceAll(rest, ",", " ")) {
					curF.OnlyAxioms[a] = true
				}
			case "noaxioms":
				if curF.NoAxioms == nil {
					curF.NoAxioms = map[string]bool{}
				}
				for _, a := range strings.Fields(strings.ReplaceAll(rest, ",", " ")) {
					curF.NoAxioms[a] = true
				}
			case "strings":
				curF.Strings = true
			case "noinline":
				curF.NoInline = true
			case "params":
				curF.ParamNames = strings.Fields(strings.ReplaceAll(rest, ",", " "))
			case "modifies":
				for _, t := range splitTop(rest) {
					curF.Modifies = append(curF.Modifies, strings.TrimSpace(t))
				}
			case "requires", "ensures", "ensures_panic", "ghost_ensures", "assume":
				c, err := mkClause(kw, rest, l)
				if err != nil {
					return err
				}
				switch kw {
				case "requires":
					curF.Requires = append(curF.Requires, c)
				case "ensures":
					curF.Ensures = append(curF.Ensures, c)
				case "ensures_panic":
					curF.EnsPanic = append(curF.EnsPanic, c)
				case "ghost_ensures":
					curF.GhostEns = append(curF.GhostEns, c)
				case "assume":
					curF.Assumes = append(curF.Assumes, c)
				}
			case "at_call":
				fs := strings.Fields(rest)
				if len(fs) < 2 {
					return fail(l, "at_call KEY [label:] EXPR")
				}
				c, err := mkClause("at_call", strings.TrimSpace(strings.TrimPrefix(rest, fs[0])), l)
				if err != nil {
					return err
				}
				if curF.AtCalls == nil {
					curF.AtCalls = map[string][]*Clause{}
				}
				curF.AtCalls[fs[0]] = append(curF.AtCalls[fs[0]], c)
			case "after_call":
				fs := strings.Fields(rest)
				if len(fs) < 2 {
					return fail(l, "after_call KEY [label:] EXPR")
				}
				c, err := mkClause("after_call", strings.TrimSpace(strings.TrimPrefix(rest, fs[0])), l)
				if err != nil {
					return err
				}
				if curF.AfterCalls == nil {
					curF.AfterCalls = map[string][]*Clause{}
				}
				curF.AfterCalls[fs[0]] = append(curF.AfterCalls[fs[0]], c)
			case "loop":
				fs := strings.Fields(rest)
				if len(fs) < 3 {
					return fail(l, "loop N invariant|decreases EXPR")
				}
				var n int
				if _, err := fmt.Sscanf(fs[0], "%d", &n); err != nil {
					return fail(l, "loop ordinal: %v", err)
				}
				lc := curF.Loops[n]
				if lc == nil {
					lc = &LoopContract{}
					curF.Loops[n] = lc
				}
				body := strings.TrimSpace(strings.TrimPrefix(strings.TrimSpace(strings.TrimPrefix(rest, fs[0])), fs[1]))
				switch fs[1] {
				case "invariant":
					c, err := mkClause("invariant", body, l)
					if err != nil {
						return err
					}
					lc.Invariants = append(lc.Invariants, c)
				case "iteration":
					c, err := mkClause("iteration", body, l)
					if err != nil {
						return err
					}
					lc.Iteration = append(lc.Iteration, c)
				case "decreases":
					lc.DecSrc = body
					for _, t := range splitTop(body) {
						e, err := ParseExpr(t)
						if err != nil {
							return fail(l, "%v", err)
						}
						lc.Decreases = append(lc.Decreases, e)
					}
				default:
					return fail(l, "loop N invariant|iteration|decreases")
				}
			}
		}
	}
	return nil
}

// splitTop splits on commas that are not nested in parens/brackets.
func splitTop(s string) []string {
	var out []string
	depth := 0
	last := 0
	for i, c := range s {
		switch c {
		case '(', '[':
			depth++
		case ')', ']':
			depth--
		case ',':
			if depth == 0 {
				out = append(out, s[last:i])
				last = i + 1
			}
		}
	}
	if strings.TrimSpace(s[last:]) != "" {
		out = append(out, s[last:])
	}
	return out
}

func parseSpecSig(s string) (*SpecFunc, error) {
	var reads []string
	if i := strings.Index(s, " reads "); i >= 0 {
		reads = strings.Fields(strings.ReplaceAll(s[i+7:], ",", " "))
		s = s[:i]
	}
	sf, err := parseSpecSig0(s)
	if err != nil {
		return nil, err
	}
	sf.Reads = reads
	return sf, nil
}

func parseSpecSig0(s string) (*SpecFunc, error) {
	m := regexp.MustCompile(`^(\w+)\s*\(([^)]*)\)\s*(\S+)$`).FindStringSubmatch(strings.TrimSpace(s))
	if m == nil {
		return nil, fmt.Errorf("bad spec signature %q", s)
	}
	sf := &SpecFunc{Name: m[1], Result: m[3]}
	for _, p := range splitTop(m[2]) {
		fs := strings.Fields(p)
		if len(fs) != 2 {
			return nil, fmt.Errorf("bad spec parameter %q", p)
		}
		sf.Params = append(sf.Params, QVar{fs[0], fs[1]})
	}
	return sf, nil
}

// FindContractFiles returns contract files under root: <root>/**/verif_contracts*.go
func FindContractFiles(root string) ([]string, error) {
	var out []string
	err := filepath.Walk(root, func(p string, info os.FileInfo, err error) error {
		if err != nil {
			return nil
		}
		if info.IsDir() && (info.Name() == ".git" || info.Name() == "vendor") {
			return filepath.SkipDir
		}
		if !info.IsDir() && strings.HasPrefix(info.Name(), "verif_contracts") && strings.HasSuffix(info.Name(), ".go") {
			out = append(out, p)
		}
		return nil
	})
	return out, err
}
