package main

import (
	"bytes"
	"context"
	"crypto/sha256"
	"encoding/hex"
	"fmt"
	"os"
	"os/exec"
	"path/filepath"
	"regexp"
	"sort"
	"strings"
	"sync"
	"time"
)

var symRe = regexp.MustCompile(`\|[^|]+\|`)

// script renders the SMT-LIB text of an obligation (solver-independent part).
func (e *Engine) script(ob *Obligation) string {
	var sb strings.Builder
	body := strings.Join(ob.Assumes, "\n") + "\n" + ob.Goal
	used := map[string]bool{}
	for _, s := range symRe.FindAllString(body, -1) {
		used[s] = true
	}
	if !ob.Strings {
		sb.WriteString("(declare-sort Str 0)\n(declare-const str_empty Str)\n")
		var lits []string
		for _, n := range e.strLits {
			lits = append(lits, n)
		}
		sort.Strings(lits)
		for _, n := range lits {
			sb.WriteString("(declare-const " + n + " Str)\n")
		}
		if len(lits) > 0 {
			sb.WriteString("(assert (distinct str_empty " + strings.Join(lits, " ") + "))\n")
		}
	}
	for _, n := range e.ufunOrder {
		sb.WriteString(e.ufuns[n] + "\n")
	}
	for _, n := range e.declOrder {
		if used[n] {
			sb.WriteString("(declare-const " + n + " " + e.decls[n] + ")\n")
		}
	}
	for _, a := range ob.Assumes {
		if ob.Cover && ob.Kind == "vacuity" && strings.HasSuffix(ob.Name, "exit_reachable") && (strings.Contains(a, "(forall ") || strings.Contains(a, "(exists ")) {
			continue // exit probes use the quantifier-free part of the path condition only
		}
		sb.WriteString("(assert " + a + ")\n")
	}
	if ob.Cover {
		// vacuity probe: the path condition itself must be satisfiable
	} else {
		sb.WriteString("(assert (not " + ob.Goal + "))\n")
	}
	return sb.String()
}

type solverSpec struct {
	name string
	cmd  func(file string, timeoutS int, strs bool) []string
	pre  string
}

var solvers = []solverSpec{
	{"z3-new", func(f string, t int, _ bool) []string { return []string{"z3-new", "-smt2", fmt.Sprintf("-T:%d", t), f} }, ""},
	{"z3", func(f string, t int, _ bool) []string { return []string{"z3", "-smt2", fmt.Sprintf("-T:%d", t), f} }, ""},
	{"cvc5", func(f string, t int, strs bool) []string {
		a := []string{"cvc5", fmt.Sprintf("--tlimit=%d", t*1000), "--produce-models"}
		if strs {
			a = append(a, "--strings-exp")
		}
		return append(a, f)
	}, "(set-logic ALL)\n"},
}

type solveResult struct {
	status string // unsat sat unknown timeout error
	solver string
	out    string
	secs   float64
}

func runSolver(ctx context.Context, sp solverSpec, dir, base, script string, timeoutS int, strs bool, getValues []string) solveResult {
	file := filepath.Join(dir, base+"."+sp.name+".smt2")
	text := sp.pre + script + "(check-sat)\n"
	if len(getValues) > 0 {
		text += "(get-value (" + strings.Join(getValues, " ") + "))\n"
	}
	if err := os.WriteFile(file, []byte(text), 0o644); err != nil {
		return solveResult{status: "error", solver: sp.name, out: err.Error()}
	}
	args := sp.cmd(file, timeoutS, strs)
	cctx, cancel := context.WithTimeout(ctx, time.Duration(timeoutS+2)*time.Second)
	defer cancel()
	cmd := exec.CommandContext(cctx, args[0], args[1:]...)
	var out bytes.Buffer
	cmd.Stdout = &out
	cmd.Stderr = &out
	t0 := time.Now()
	_ = cmd.Run()
	secs := time.Since(t0).Seconds()
	first := strings.TrimSpace(strings.SplitN(out.String(), "\n", 2)[0])
	st := "error"
	switch {
	case first == "unsat":
		st = "unsat"
	case first == "sat":
		st = "sat"
	case first == "unknown":
		st = "unknown"
	case first == "timeout" || strings.Contains(out.String(), "timeout") || strings.Contains(out.String(), "interrupted") || cctx.Err() != nil:
		st = "timeout"
	}
	return solveResult{status: st, solver: sp.name, out: out.String(), secs: secs}
}

// portfolio: quick attempt with z3-new, then race all three.
func solveOne(dir string, idx int, script string, strs bool, quickS, fullS int, getValues []string) solveResult {
	h := sha256.Sum256([]byte(script))
	base := fmt.Sprintf("ob%04d_%s", idx, hex.EncodeToString(h[:4]))
	first := solvers[0]
	if strs {
		first = solvers[2] // cvc5 decides string goals
		if quickS < 12 {
			quickS = 12
		}
		if fullS < 30 {
			fullS = 30
		}
	}
	r := runSolver(context.Background(), first, dir, base, script, quickS, strs, getValues)
	total := r.secs
	if r.status == "unsat" || r.status == "sat" {
		return r
	}
	ctx, cancel := context.WithCancel(context.Background())
	defer cancel()
	ch := make(chan solveResult, len(solvers))
	for _, sp := range solvers {
		sp := sp
		go func() { ch <- runSolver(ctx, sp, dir, base, script, fullS, strs, getValues) }()
	}
	best := r
	for range solvers {
		rr := <-ch
		if rr.status == "unsat" || rr.status == "sat" {
			rr.secs += total
			return rr
		}
		if best.status == "error" || (best.status == "timeout" && rr.status == "unknown") {
			best = rr
		}
	}
	best.secs += total
	return best
}

// Discharge runs all obligations; static ones are decided directly.
func (e *Engine) Discharge(obs []*Obligation, scratch string, quickS, fullS, workers int) {
	var wg sync.WaitGroup
	sem := make(chan struct{}, workers)
	for i, ob := range obs {
		if ob.Static {
			if ob.Goal == "true" {
				ob.Result = "unsat"
			} else {
				// "false" goal: fails iff the path is feasible -> ask the solver whether assumes are sat
				ob.Static = false
			}
			if ob.Static {
				ob.Solver = "static"
				continue
			}
		}
		wg.Add(1)
		sem <- struct{}{}
		go func(i int, ob *Obligation) {
			defer wg.Done()
			defer func() { <-sem }()
			var r solveResult
			if ob.Cover {
				// vacuity probe: only "unsat" matters; a short single-solver attempt is enough
				sp := solvers[0]
				if ob.Strings {
					sp = solvers[2]
				}
				r = runSolver(context.Background(), sp, scratch, fmt.Sprintf("cover%04d", i), ob.Script, 2, ob.Strings, nil)
			} else {
				r = solveOne(scratch, i, ob.Script, ob.Strings, quickS, fullS, nil)
			}
			ob.Result, ob.Solver, ob.TimeS, ob.Model = r.status, r.solver, r.secs, ""
			if r.status == "sat" && !ob.Cover {
				// fetch values of the symbolic inputs for replay
				var terms []string
				var names []string
				for n := range ob.Inputs {
					names = append(names, n)
				}
				sort.Strings(names)
				for _, n := range names {
					terms = append(terms, ob.Inputs[n])
				}
				if len(terms) > 0 {
					for _, sp := range solvers {
						if sp.name == r.solver {
							rr := runSolver(context.Background(), sp, scratch, fmt.Sprintf("ob%04d_model", i), ob.Script, fullS, ob.Strings, terms)
							ob.Model = rr.out
						}
					}
				}
			}
			if r.status == "error" {
				ob.Model = r.out
			}
		}(i, ob)
	}
	wg.Wait()
}
