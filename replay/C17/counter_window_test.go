// replay-pkg: memmetrics
// replay-obligations: memmetrics\.
// replay-run: TestVerifReplayC17
package memmetrics

// Witness search for C17 on the real counter with the frozen clock: for bucket counts 1..12 and resolutions
// 1s, 1.5s, 2s, 3s, 2.5s, deterministic pseudo-random histories of increments and clock advances; after every
// step Count() must lie between the sum of the increments of the last (N-1)*r and the sum of those of the last N*r.

import (
	"testing"
	"time"

	"github.com/vulcand/oxy/v2/internal/holsterv4/clock"
)

type incEv struct {
	at time.Duration
	v  int
}

func TestVerifReplayC17(t *testing.T) {
	resolutions := []time.Duration{time.Second, 1500 * time.Millisecond, 2 * time.Second, 3 * time.Second, 2500 * time.Millisecond}
	for _, r := range resolutions {
		for n := 1; n <= 12; n++ {
			for seed := uint32(1); seed <= 6; seed++ {
				done := clock.Freeze(time.Date(2024, 3, 1, 0, 0, 0, 0, time.UTC)).Unfreeze
				c, err := NewCounter(n, r)
				if err != nil {
					done()
					t.Fatal(err)
				}
				var evs []incEv
				var now time.Duration
				x := seed * 2654435761
				desc := ""
				for step := 0; step < 60; step++ {
					x = x*1664525 + 1013904223
					switch (x >> 16) % 3 {
					case 0:
						c.Inc(1)
						evs = append(evs, incEv{now, 1})
						desc += "Inc;"
					case 1:
						d := time.Duration((x>>8)%5) * r / 2 // sub-resolution and multi-slot steps
						clock.Advance(d)
						now += d
						desc += "+" + d.String() + ";"
					case 2:
						d := time.Duration((x>>8)%3) * time.Duration(n) * r / 2 // multi-window gaps
						clock.Advance(d)
						now += d
						desc += "+" + d.String() + ";"
					}
					got := c.Count()
					var lo, hi int64
					for _, e := range evs {
						age := now - e.at
						if age <= time.Duration(n-1)*r {
							lo += int64(e.v)
						}
						if age < time.Duration(n)*r {
							hi += int64(e.v)
						}
					}
					if got < lo || got > hi {
						done()
						t.Fatalf("N=%d r=%v history %s: Count()=%d, increments within the last (N-1)*r: %d, within the last N*r: %d", n, r, desc, got, lo, hi)
					}
				}
				done()
			}
		}
	}
}
