// replay-pkg: ratelimit
// replay-obligations: ratelimit\.
// replay-run: TestVerifReplayC03
package ratelimit

// Witness search for C03/C13 on the real limiter with the frozen clock: for a set of rates and arrival patterns,
// the amount admitted in every interval [t1,t2] must not exceed burst + (t2-t1)/theta + 1 (theta = period/average in ns);
// a refused request must not debit; the advertised delay must be sufficient.

import (
	"fmt"
	"net/http"
	"net/http/httptest"
	"testing"
	"time"

	"github.com/vulcand/oxy/v2/internal/holsterv4/clock"
	"github.com/vulcand/oxy/v2/utils"
)

type admission struct {
	at time.Duration
	n  int64
}

func checkBound(t *testing.T, name string, adm []admission, period time.Duration, average, burst int64) {
	theta := int64(period) / average
	for i := range adm {
		var sum int64
		for j := i; j < len(adm); j++ {
			sum += adm[j].n
			T := int64(adm[j].at - adm[i].at)
			var refill int64
			if theta > 0 {
				refill = T / theta
			} else {
				refill = 1 << 40
			}
			if bound := burst + refill + 1; sum > bound && theta > 0 {
				t.Fatalf("%s: rate %d/%v burst %d: %d admitted in [%v,%v], bound %d", name, average, period, burst, sum, adm[i].at, adm[j].at, bound)
			}
		}
	}
	if theta == 0 {
		// the statement's bound with period/average < 1ns: burst + T*average/period + 1
		for i := range adm {
			var sum int64
			for j := i; j < len(adm); j++ {
				sum += adm[j].n
				T := int64(adm[j].at - adm[i].at)
				if bound := burst + T*average/int64(period) + 1; sum > bound {
					t.Fatalf("%s: rate %d/%v burst %d: %d admitted in [%v,%v], bound %d", name, average, period, burst, sum, adm[i].at, adm[j].at, bound)
				}
			}
		}
	}
}

func TestVerifReplayC03(t *testing.T) {
	type cfg struct {
		period         time.Duration
		average, burst int64
		step           time.Duration
		steps          int
	}
	cfgs := []cfg{
		{time.Second, 1, 5, 500 * time.Millisecond, 60},  // sustained traffic far longer than the entry lifetime (ttl 11 s)
		{time.Second, 2, 3, 250 * time.Millisecond, 120}, // burst <= 5 x average
		{time.Second, 10, 10, 50 * time.Millisecond, 400},
		{time.Nanosecond, 2, 3, 0, 100}, // average > period in ns
	}
	for ci, c := range cfgs {
		done := clock.Freeze(time.Date(2024, 1, 1, 0, 0, 0, 0, time.UTC)).Unfreeze
		rates := NewRateSet()
		if err := rates.Add(c.period, c.average, c.burst); err != nil {
			done()
			continue // a configuration the limiter refuses outright cannot violate the bound
		}
		ext, _ := utils.NewExtractor("client.ip")
		tl, err := New(http.HandlerFunc(func(w http.ResponseWriter, r *http.Request) {}), ext, rates)
		if err != nil {
			done()
			t.Fatal(err)
		}
		var adm []admission
		var now time.Duration
		for s := 0; s < c.steps; s++ {
			// three attempts per step: floods of rejected requests in between
			for k := 0; k < 3; k++ {
				req := httptest.NewRequest(http.MethodGet, "http://x/", nil)
				req.RemoteAddr = "9.9.9.9:1"
				rec := httptest.NewRecorder()
				tl.ServeHTTP(rec, req)
				if rec.Code == http.StatusOK {
					adm = append(adm, admission{now, 1})
				}
			}
			clock.Advance(c.step)
			now += c.step
		}
		done()
		checkBound(t, fmt.Sprintf("config %d", ci), adm, c.period, c.average, c.burst)
	}
}

// Rejections cost nothing; the advertised delay is sufficient; idle sources regain the full burst.
func TestVerifReplayC03Delay(t *testing.T) {
	done := clock.Freeze(time.Date(2024, 1, 1, 0, 0, 0, 0, time.UTC)).Unfreeze
	defer done()
	for _, avg := range []int64{1, 3, 7} {
		for _, burst := range []int64{1, 2, 5} {
			for _, n := range []int64{1, 2} {
				if n > burst {
					continue
				}
				b := newTokenBucket(&rate{period: time.Second, average: avg, burst: burst})
				for b.availableTokens >= n { // drain
					if d, err := b.consume(n); err != nil || d != 0 {
						t.Fatalf("drain: %v %v", d, err)
					}
				}
				before := b.availableTokens
				clock.Advance(37 * time.Millisecond)
				var d time.Duration
				for k := 0; k < 5; k++ { // flood of rejected requests
					var err error
					d, err = b.consume(n)
					if err != nil {
						t.Fatal(err)
					}
					if d == 0 {
						break
					}
					if b.availableTokens < before {
						t.Fatalf("avg %d burst %d n %d: a refused request debited the bucket (%d -> %d)", avg, burst, n, before, b.availableTokens)
					}
				}
				if d > 0 {
					clock.Advance(d)
					if d2, err := b.consume(n); err != nil || d2 != 0 {
						t.Fatalf("avg %d burst %d n %d: retried after the advertised delay %v and still refused (delay %v, err %v)", avg, burst, n, d, d2, err)
					}
				}
				clock.Advance(time.Duration(burst) * (time.Second / time.Duration(avg)))
				b.updateAvailableTokens()
				if b.availableTokens != burst {
					t.Fatalf("avg %d burst %d: idle for burst*theta, bucket has %d of %d", avg, burst, b.availableTokens, burst)
				}
			}
		}
	}
}
