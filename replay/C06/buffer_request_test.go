// replay-pkg: buffer
// replay-obligations: buffer\.|utils\.CopyHeaders
// replay-run: TestVerifReplayC06
package buffer

// Replay harness for C06: what the wrapped handler receives on every attempt.

import (
	"bytes"
	"io"
	"net/http"
	"net/http/httptest"
	"testing"
)

func TestVerifReplayC06EveryAttemptSeesTheRequest(t *testing.T) {
	for _, size := range []int{0, 1, 15, 16, 17, 4096} {
		for _, chunked := range []bool{false, true} {
			for _, consumed := range []int{0, 1, size} {
				payload := bytes.Repeat([]byte("ab"), size)[:size]
				attempt := 0
				h := http.HandlerFunc(func(w http.ResponseWriter, r *http.Request) {
					attempt++
					if r.ContentLength != int64(size) || len(r.TransferEncoding) != 0 {
						t.Errorf("size %d chunked %v attempt %d: ContentLength %d TransferEncoding %v", size, chunked, attempt, r.ContentLength, r.TransferEncoding)
					}
					if r.Method != "PUT" || r.URL.Path != "/p" || r.URL.RawQuery != "q=1" || r.Header.Get("X-A") != "a" || len(r.Header["X-B"]) != 2 {
						t.Errorf("attempt %d: method/url/headers differ: %s %s %v", attempt, r.Method, r.URL, r.Header)
					}
					if attempt < 3 {
						// a failing attempt: consume part of the body, modify what it was given
						_, _ = io.CopyN(io.Discard, r.Body, int64(consumed))
						r.Header.Set("X-A", "changed")
						r.Header["X-B"][0] = "changed"
						r.URL.Path = "/changed"
						w.WriteHeader(502)
						_, _ = w.Write([]byte("bad gateway"))
						return
					}
					got, _ := io.ReadAll(r.Body)
					if !bytes.Equal(got, payload) {
						t.Errorf("size %d chunked %v consumed %d: attempt %d read %d bytes, want the complete %d byte body", size, chunked, consumed, attempt, len(got), size)
					}
					w.WriteHeader(200)
					_, _ = w.Write([]byte("ok"))
				})
				b, err := New(h, MemRequestBodyBytes(16), Retry(`IsNetworkError() && Attempts() < 5`))
				if err != nil {
					t.Fatal(err)
				}
				req := httptest.NewRequest("PUT", "http://example.test/p?q=1", bytes.NewReader(payload))
				req.Header.Set("X-A", "a")
				req.Header["X-B"] = []string{"b1", "b2"}
				if chunked {
					req.ContentLength = -1
					req.TransferEncoding = []string{"chunked"}
				}
				rec := httptest.NewRecorder()
				b.ServeHTTP(rec, req)
				if rec.Code != 200 || attempt != 3 {
					t.Errorf("size %d: status %d after %d attempts", size, rec.Code, attempt)
				}
				if req.Header.Get("X-A") != "a" || req.Header["X-B"][0] != "b1" || req.URL.Path != "/p" {
					t.Errorf("the caller's request was modified by an attempt: %v %s", req.Header, req.URL)
				}
			}
		}
	}
}
