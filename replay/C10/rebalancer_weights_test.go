// replay-pkg: roundrobin
// replay-obligations: roundrobin\.
// replay-run: TestVerifReplayC10
package roundrobin

// Witness search for C10 on the real rebalancer (frozen clock, controllable meters): pseudo-random rating histories,
// after every adjustment: weights in [1, max(4096, configured)], at most one adjustment per back-off interval,
// no outlier gains share in an adjustment made while outliers exist, membership changes restore the configuration,
// and six adjustments with equal ratings restore the configured proportions.

import (
	"fmt"
	"net/url"
	"testing"
	"time"

	"github.com/vulcand/oxy/v2/internal/holsterv4/clock"
)

type ctlMeter struct {
	rating float64
	ready  bool
}

func (m *ctlMeter) Rating() float64               { return m.rating }
func (m *ctlMeter) Record(int, time.Duration)     {}
func (m *ctlMeter) IsReady() bool                 { return m.ready }

func TestVerifReplayC10(t *testing.T) {
	for seed := uint32(1); seed <= 40; seed++ {
		done := clock.Freeze(time.Date(2024, 1, 1, 0, 0, 0, 0, time.UTC)).Unfreeze
		x := seed * 2654435761
		rnd := func(n uint32) uint32 { x = x*1664525 + 1013904223; return (x >> 16) % n }
		var meters []*ctlMeter
		lb, _ := New(nil)
		rb, _ := NewRebalancer(lb, RebalancerBackoff(10*time.Second), RebalancerMeter(func() (Meter, error) {
			m := &ctlMeter{ready: true}
			meters = append(meters, m)
			return m, nil
		}))
		n := int(2 + rnd(3))
		orig := make([]int, n)
		for i := 0; i < n; i++ {
			orig[i] = []int{1, 1, 2, 3, 5, 100, 5000}[rnd(7)]
			u, _ := url.Parse(fmt.Sprintf("http://s%d", i))
			if err := rb.UpsertServer(u, Weight(orig[i])); err != nil {
				done()
				t.Fatal(err)
			}
		}
		desc := fmt.Sprintf("seed %d configured %v", seed, orig)
		lastAdj := time.Time{}
		snapshot := func() []int {
			out := make([]int, len(rb.servers))
			for i, s := range rb.servers {
				out[i] = s.curWeight
			}
			return out
		}
		for step := 0; step < 60; step++ {
			for i, m := range meters {
				if rnd(3) == 0 {
					m.rating = float64(rnd(2)) * (0.2 + 0.1*float64(i%3))
				}
				m.ready = rnd(10) != 0
			}
			clock.Advance(time.Duration(1+rnd(8)) * time.Second)
			before := snapshot()
			rb.adjustWeights()
			after := snapshot()
			changed := fmt.Sprint(before) != fmt.Sprint(after)
			if changed {
				if !lastAdj.IsZero() && clock.Now().Sub(lastAdj) <= 10*time.Second {
					done()
					t.Fatalf("%s: two adjustments %v apart (back-off 10s)", desc, clock.Now().Sub(lastAdj))
				}
				lastAdj = clock.Now()
				sumB, sumA := 0, 0
				for i := range before {
					sumB += before[i]
					sumA += after[i]
				}
				anyBad := false
				for _, s := range rb.servers {
					if !s.good {
						anyBad = true
					}
				}
				if anyBad {
					for i, s := range rb.servers {
						if !s.good && after[i]*sumB > before[i]*sumA {
							done()
							t.Fatalf("%s: outlier %d went from %d/%d to %d/%d of the traffic", desc, i, before[i], sumB, after[i], sumA)
						}
					}
				}
			}
			for i, s := range rb.servers {
				hi := 4096
				if s.origWeight > hi {
					hi = s.origWeight
				}
				if s.curWeight < 1 || s.curWeight > hi {
					done()
					t.Fatalf("%s step %d: server %d has effective weight %d (configured %d)", desc, step, i, s.curWeight, s.origWeight)
				}
				if w, _ := lb.ServerWeight(s.url); w != s.curWeight {
					done()
					t.Fatalf("%s: balancer weight %d differs from the rebalancer's %d", desc, w, s.curWeight)
				}
			}
		}
		// ratings stop differing: six adjustments restore the proportions
		for _, m := range meters {
			m.rating, m.ready = 0.1, true
		}
		for k := 0; k < 6; k++ {
			clock.Advance(11 * time.Second)
			rb.adjustWeights()
		}
		for i, a := range rb.servers {
			for j, b := range rb.servers {
				if a.curWeight*b.origWeight != b.curWeight*a.origWeight {
					done()
					t.Fatalf("%s: after six quiet adjustments weights %v are not proportional to the configuration (servers %d,%d)", desc, snapshot(), i, j)
				}
			}
		}
		// membership change restores the configuration
		meters[0].rating = 0.9
		clock.Advance(11 * time.Second)
		rb.adjustWeights()
		u, _ := url.Parse("http://extra")
		_ = rb.UpsertServer(u, Weight(2))
		for i, s := range rb.servers {
			if s.curWeight != s.origWeight {
				done()
				t.Fatalf("%s: after a membership change server %d has weight %d, configured %d", desc, i, s.curWeight, s.origWeight)
			}
		}
		done()
	}
}
