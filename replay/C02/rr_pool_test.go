// replay-pkg: roundrobin
// replay-obligations: roundrobin\.(\(\*RoundRobin\)\.(UpsertServer|RemoveServer|findServerByURL|Servers|NextServer|nextServer|ServeHTTP|resetState)|Weight\$1)#
// replay-run: TestVerifReplayC02RR
package roundrobin

// Witness search for C02 on the real balancer: short histories of add / update-weight (including failing option
// lists) / remove interleaved with selections, compared against a reference pool; every selection must terminate.

import (
	"fmt"
	"net/http"
	"net/http/httptest"
	"net/url"
	"testing"
	"time"
)

type refSrv struct {
	host string
	w    int
}

func nextWithin(t *testing.T, rr *RoundRobin, what string) (*url.URL, error) {
	type res struct {
		u   *url.URL
		err error
	}
	ch := make(chan res, 1)
	go func() {
		u, err := rr.NextServer()
		ch <- res{u, err}
	}()
	select {
	case r := <-ch:
		return r.u, r.err
	case <-time.After(3 * time.Second):
		t.Fatalf("%s: NextServer did not return within 3s (selection loop spins with the pool lock held)", what)
	}
	return nil, nil
}

func TestVerifReplayC02RR(t *testing.T) {
	hosts := []string{"a", "b", "c"}
	mk := func(h string) *url.URL { u, _ := url.Parse("http://" + h); return u }
	// op encoding: 0..2 upsert(host, w=1..3) ; 3 upsert(host, Weight(0), Weight(-1)) (partial failure) ; 4 remove ; 5 upsert weight 0
	type op struct{ kind, host, w int }
	var ops []op
	for h := range hosts {
		for w := 1; w <= 3; w += 2 {
			ops = append(ops, op{0, h, w})
		}
		ops = append(ops, op{3, h, 0}, op{4, h, 0}, op{5, h, 0})
	}
	var run func(hist []op, depth int)
	check := func(hist []op) {
		rr, _ := New(nil)
		var ref []refSrv
		find := func(h string) int {
			for i, s := range ref {
				if s.host == h {
					return i
				}
			}
			return -1
		}
		desc := ""
		for _, o := range hist {
			h := hosts[o.host]
			switch o.kind {
			case 0:
				desc += fmt.Sprintf("Upsert(%s,%d);", h, o.w)
				if err := rr.UpsertServer(mk(h), Weight(o.w)); err != nil {
					t.Fatalf("%s: %v", desc, err)
				}
				if i := find(h); i >= 0 {
					ref[i].w = o.w
				} else {
					ref = append(ref, refSrv{h, o.w})
				}
			case 3:
				desc += fmt.Sprintf("Upsert(%s,Weight(0),Weight(-1));", h)
				err := rr.UpsertServer(mk(h), Weight(0), Weight(-1))
				if err == nil {
					t.Fatalf("%s: invalid option accepted", desc)
				}
				if i := find(h); i >= 0 {
					ref[i].w = 0 // first option was applied to the existing server
				}
			case 4:
				desc += fmt.Sprintf("Remove(%s);", h)
				err := rr.RemoveServer(mk(h))
				i := find(h)
				if (err == nil) != (i >= 0) {
					t.Fatalf("%s: remove returned %v, server known=%v", desc, err, i >= 0)
				}
				if i >= 0 {
					ref = append(ref[:i], ref[i+1:]...)
				}
			case 5:
				desc += fmt.Sprintf("Upsert(%s,0);", h)
				if err := rr.UpsertServer(mk(h), Weight(0)); err != nil {
					t.Fatalf("%s: %v", desc, err)
				}
				if i := find(h); i >= 0 {
					ref[i].w = 0
				} else {
					ref = append(ref, refSrv{h, defaultWeight})
				}
			}
			// after every step: membership and routability
			got := rr.Servers()
			if len(got) != len(ref) {
				t.Fatalf("%s: Servers()=%v, reference %v", desc, got, ref)
			}
			sum := 0
			for _, s := range ref {
				sum += s.w
			}
			seen := map[string]int{}
			for k := 0; k < 2*sum+2; k++ {
				u, err := nextWithin(t, rr, desc)
				if sum == 0 {
					if err == nil {
						t.Fatalf("%s: pool %v has no positive weight but %v was selected", desc, ref, u)
					}
					continue
				}
				if err != nil {
					t.Fatalf("%s: selection failed on pool %v: %v", desc, ref, err)
				}
				i := find(u.Host)
				if i < 0 || ref[i].w == 0 {
					t.Fatalf("%s: selected %v which is not a positive-weight member of %v", desc, u, ref)
				}
				seen[u.Host]++
			}
			for _, s := range ref {
				if s.w > 0 && sum > 0 && seen[s.host] == 0 {
					t.Fatalf("%s: member %v never selected in %d selections of pool %v", desc, s, 2*sum+2, ref)
				}
			}
		}
	}
	run = func(hist []op, depth int) {
		if depth == 0 {
			check(hist)
			return
		}
		for _, o := range ops {
			run(append(hist, o), depth-1)
		}
	}
	for d := 1; d <= 3; d++ {
		run(nil, d)
	}
}

// Nothing a downstream handler does to the request it was handed alters the pool (sticky and normal path).
func TestVerifReplayC02RRDownstreamMutation(t *testing.T) {
	for _, sticky := range []bool{false, true} {
		var opts []LBOption
		if sticky {
			opts = append(opts, EnableStickySession(NewStickySession("aff")))
		}
		h := http.HandlerFunc(func(w http.ResponseWriter, req *http.Request) {
			req.URL.Path = "/rewritten-by-handler"
			req.URL.Host = "evil"
		})
		rr, _ := New(h, opts...)
		a, _ := url.Parse("http://a/base")
		_ = rr.UpsertServer(a)
		before := rr.Servers()[0].String()
		rec := httptest.NewRecorder()
		rr.ServeHTTP(rec, httptest.NewRequest(http.MethodGet, "http://front/", nil))
		if got := rr.Servers()[0].String(); got != before {
			t.Fatalf("sticky=%v: first request: pool member changed from %s to %s by the downstream handler", sticky, before, got)
		}
		// second request carries the cookie issued by the first
		req2 := httptest.NewRequest(http.MethodGet, "http://front/", nil)
		for _, c := range rec.Result().Cookies() {
			req2.AddCookie(c)
		}
		rr.ServeHTTP(httptest.NewRecorder(), req2)
		if got := rr.Servers()[0].String(); got != before {
			t.Fatalf("sticky=%v: request with affinity cookie: pool member changed from %s to %s by the downstream handler", sticky, before, got)
		}
		if err := rr.RemoveServer(a); err != nil {
			t.Fatalf("sticky=%v: the server can no longer be removed under its own URL: %v", sticky, err)
		}
	}
}
