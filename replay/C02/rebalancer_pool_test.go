// replay-pkg: roundrobin
// replay-obligations: roundrobin\.\(\*Rebalancer\)\.
// replay-run: TestVerifReplayC02Rebalancer
package roundrobin

// Witness search for C02 through the rebalancer: all add/update/remove histories of length <= 4 over two servers,
// compared against a reference pool; plus the downstream-mutation check on the sticky path.

import (
	"fmt"
	"net/http"
	"net/http/httptest"
	"net/url"
	"testing"
)

func TestVerifReplayC02Rebalancer(t *testing.T) {
	hosts := []string{"a", "b"}
	mk := func(h string) *url.URL { u, _ := url.Parse("http://" + h); return u }
	type op struct{ kind, host, w int } // 0 upsert(w) 1 remove
	var ops []op
	for h := range hosts {
		ops = append(ops, op{0, h, 1}, op{0, h, 3}, op{1, h, 0})
	}
	var run func(hist []op, depth int)
	check := func(hist []op) {
		lb, _ := New(nil)
		rb, _ := NewRebalancer(lb)
		ref := map[string]int{}
		desc := ""
		for _, o := range hist {
			h := hosts[o.host]
			if o.kind == 0 {
				desc += fmt.Sprintf("Upsert(%s,%d);", h, o.w)
				if err := rb.UpsertServer(mk(h), Weight(o.w)); err != nil {
					t.Fatalf("%s: %v", desc, err)
				}
				ref[h] = o.w
			} else {
				desc += fmt.Sprintf("Remove(%s);", h)
				err := rb.RemoveServer(mk(h))
				_, known := ref[h]
				if (err == nil) != known {
					t.Fatalf("%s: remove returned %v, server known=%v", desc, err, known)
				}
				delete(ref, h)
			}
			got := rb.Servers()
			if len(got) != len(ref) {
				t.Fatalf("%s: Servers()=%v, reference %v", desc, got, ref)
			}
			if len(rb.servers) != len(ref) {
				t.Fatalf("%s: rebalancer keeps %d records for the %d members %v", desc, len(rb.servers), len(ref), ref)
			}
			for _, u := range got {
				if _, ok := ref[u.Host]; !ok {
					t.Fatalf("%s: %v is routable but not in the reference pool %v", desc, u, ref)
				}
			}
			for _, s := range rb.servers {
				w, ok := ref[s.url.Host]
				if !ok || s.origWeight != w || s.curWeight != w {
					t.Fatalf("%s: record %v orig=%d cur=%d, reference %v", desc, s.url, s.origWeight, s.curWeight, ref)
				}
				if bw, _ := lb.ServerWeight(s.url); bw != w {
					t.Fatalf("%s: balancer weight of %v is %d, configured %d", desc, s.url, bw, w)
				}
			}
		}
	}
	run = func(hist []op, depth int) {
		if depth == 0 {
			check(hist)
			return
		}
		for _, o := range ops {
			run(append(hist, o), depth-1)
		}
	}
	for d := 1; d <= 4; d++ {
		run(nil, d)
	}
}

func TestVerifReplayC02RebalancerDownstreamMutation(t *testing.T) {
	h := http.HandlerFunc(func(w http.ResponseWriter, req *http.Request) {
		req.URL.Path = "/rewritten-by-handler"
		req.URL.Host = "evil"
	})
	lb, _ := New(h)
	rb, _ := NewRebalancer(lb, RebalancerStickySession(NewStickySession("aff")))
	a, _ := url.Parse("http://a/base")
	_ = rb.UpsertServer(a)
	before := rb.Servers()[0].String()
	rec := httptest.NewRecorder()
	rb.ServeHTTP(rec, httptest.NewRequest(http.MethodGet, "http://front/", nil))
	req2 := httptest.NewRequest(http.MethodGet, "http://front/", nil)
	for _, c := range rec.Result().Cookies() {
		req2.AddCookie(c)
	}
	rb.ServeHTTP(httptest.NewRecorder(), req2)
	if got := rb.Servers()[0].String(); got != before {
		t.Fatalf("pool member changed from %s to %s by the downstream handler", before, got)
	}
}
