// replay-pkg: roundrobin
// replay-obligations: roundrobin\.(gcd|\(\*RoundRobin\)\.(nextServer|weightGcd|maxWeight|NextServer|resetState|resetIterator|UpsertServer|RemoveServer))#
// replay-run: TestVerifReplayC01
package roundrobin

// Witness search for C01 on the real code: every pool of up to 4 servers with weights 0..4 (plus the solver's
// model when it names concrete weights), every window offset: W consecutive selections choose server i exactly
// w_i/g times; zero-weight servers are never chosen; an all-zero pool yields an error on every call.

import (
	"fmt"
	"net/url"
	"testing"
)

func igcd(a, b int) int {
	for b != 0 {
		a, b = b, a%b
	}
	return a
}

func checkPool(t *testing.T, ws []int, warm int) {
	rr, _ := New(nil)
	urls := make([]*url.URL, len(ws))
	for i := range ws {
		urls[i], _ = url.Parse(fmt.Sprintf("http://s%d", i))
		if err := rr.UpsertServer(urls[i], Weight(ws[i])); err != nil {
			t.Fatal(err)
		}
		if ws[i] == 0 {
			// Weight(0) on a new server means "default"; set an explicit zero on the existing one
			if err := rr.UpsertServer(urls[i], Weight(0)); err != nil {
				t.Fatal(err)
			}
		}
	}
	g, sum := 0, 0
	for _, w := range ws {
		g = igcd(g, w)
		sum += w
	}
	if sum == 0 {
		for k := 0; k < 2*len(ws)+3; k++ {
			if u, err := rr.NextServer(); err == nil {
				t.Fatalf("weights %v: call %d on an all-zero pool selected %v instead of failing", ws, k, u)
			}
		}
		return
	}
	W := sum / g
	var seq []int
	for k := 0; k < warm+3*W; k++ {
		u, err := rr.NextServer()
		if err != nil {
			t.Fatalf("weights %v: selection %d failed: %v", ws, k, err)
		}
		idx := -1
		for i := range urls {
			if urls[i].Host == u.Host {
				idx = i
			}
		}
		if ws[idx] == 0 {
			t.Fatalf("weights %v: zero-weight server %d selected at position %d", ws, idx, k)
		}
		seq = append(seq, idx)
	}
	for off := 0; off+W <= len(seq); off++ {
		cnt := make([]int, len(ws))
		for _, s := range seq[off : off+W] {
			cnt[s]++
		}
		for i := range ws {
			if cnt[i] != ws[i]/g {
				t.Fatalf("weights %v: window [%d,%d) selected server %d %d times, expected %d (sequence %v)", ws, off, off+W, i, cnt[i], ws[i]/g, seq)
			}
		}
	}
}

func TestVerifReplayC01(t *testing.T) {
	var rec func(ws []int, n int)
	rec = func(ws []int, n int) {
		if len(ws) == n {
			checkPool(t, append([]int(nil), ws...), len(ws))
			return
		}
		for w := 0; w <= 4; w++ {
			rec(append(ws, w), n)
		}
	}
	for n := 1; n <= 4; n++ {
		rec(nil, n)
	}
	checkPool(t, []int{6, 10, 15}, 7)
	checkPool(t, []int{1, 100}, 3)
}
