// replay-pkg: forward
// replay-obligations: forward\.[^t]|forward\.t[^h]|utils\.RemoveHeaders
// replay-run: TestVerifReplayC08
package forward

// Replay harness for C08: drives the real forwarder (forward.New) between a real client connection and a real backend
// (httptest servers) and compares what the backend receives with what the property promises. Used to turn a failed
// obligation of modifyRequest / Rewrite / forwardedPort / the Director into a concrete failing request.

import (
	"bufio"
	"fmt"
	"net"
	"net/http"
	"net/http/httptest"
	"net/url"
	"strings"
	"testing"
)

type c08seen struct {
	target, host, proto string
	hdr                 http.Header
}

func c08roundTrip(t *testing.T, passHost bool, raw string) (c08seen, string) {
	t.Helper()
	var got c08seen
	backend := httptest.NewServer(http.HandlerFunc(func(w http.ResponseWriter, r *http.Request) {
		got = c08seen{target: r.RequestURI, host: r.Host, proto: r.Proto, hdr: r.Header.Clone()}
		w.Header().Set("Connection", "X-Resp-Hop")
		w.Header().Set("X-Resp-Hop", "1")
		w.Header().Set("X-Resp-End", "1")
		w.WriteHeader(200)
	}))
	defer backend.Close()
	bu, _ := url.Parse(backend.URL)
	f := New(passHost)
	proxy := httptest.NewServer(http.HandlerFunc(func(w http.ResponseWriter, r *http.Request) {
		r.URL.Scheme, r.URL.Host = bu.Scheme, bu.Host
		f.ServeHTTP(w, r)
	}))
	defer proxy.Close()
	conn, err := net.Dial("tcp", proxy.Listener.Addr().String())
	if err != nil {
		t.Fatal(err)
	}
	defer conn.Close()
	fmt.Fprint(conn, raw)
	resp, err := http.ReadResponse(bufio.NewReader(conn), nil)
	if err != nil {
		t.Fatalf("no response: %v", err)
	}
	resp.Body.Close()
	if resp.Header.Get("X-Resp-Hop") != "" || resp.Header.Get("X-Resp-End") != "1" {
		t.Errorf("response headers: hop-by-hop header named in Connection relayed or end-to-end header lost: %v", resp.Header)
	}
	return got, bu.Host
}

func TestVerifReplayC08Targets(t *testing.T) {
	targets := []string{
		"/", "/a/b", "/a%2Fb/c", "/a%20b", "/%E2%82%AC/x", "/a;b=1/c", "/a+b?x=1+2", "//a//b", "/a/./b/../c",
		"/p?q=%41%2F&&x=y", "/p?", "/p?a=b?c", "/a%2fb%2Fc?%zz", "/a:b@c",
	}
	for _, pass := range []bool{false, true} {
		for _, tg := range targets {
			got, bhost := c08roundTrip(t, pass, "GET "+tg+" HTTP/1.1\r\nHost: front.example:8443\r\nX-End: e\r\n\r\n")
			if got.target != tg {
				t.Errorf("passHost=%v target %q reached the backend as %q", pass, tg, got.target)
			}
			want := bhost
			if pass {
				want = "front.example:8443"
			}
			if got.host != want {
				t.Errorf("passHost=%v Host %q, want %q", pass, got.host, want)
			}
			if got.proto != "HTTP/1.1" || got.hdr.Get("X-End") != "e" {
				t.Errorf("proto %q, end-to-end header %q", got.proto, got.hdr.Get("X-End"))
			}
		}
	}
}

func TestVerifReplayC08ForwardingHeaders(t *testing.T) {
	got, _ := c08roundTrip(t, false, "GET /x HTTP/1.1\r\nHost: front.example:8443\r\nKeep-Alive: 1\r\nConnection: keep-alive, X-Hop\r\nX-Hop: h\r\nTe: trailers\r\n\r\n")
	if got.hdr.Get("X-Hop") != "" || got.hdr.Get("Keep-Alive") != "" {
		t.Errorf("hop-by-hop headers forwarded: %v", got.hdr)
	}
	if got.hdr.Get("X-Forwarded-Proto") != "http" || got.hdr.Get("X-Forwarded-Host") != "front.example:8443" || got.hdr.Get("X-Forwarded-Port") != "8443" || got.hdr.Get("X-Real-Ip") != "127.0.0.1" || got.hdr.Get("X-Forwarded-Server") == "" || !strings.HasSuffix(got.hdr.Get("X-Forwarded-For"), "127.0.0.1") {
		t.Errorf("forwarding headers do not describe the connection: %v", got.hdr)
	}
	got, _ = c08roundTrip(t, false, "GET /x HTTP/1.1\r\nHost: front.example\r\nX-Forwarded-Proto: https\r\nX-Forwarded-Host: up.example\r\nX-Forwarded-Port: 444\r\nX-Real-Ip: 10.9.8.7\r\nX-Forwarded-For: 10.9.8.7\r\n\r\n")
	if got.hdr.Get("X-Forwarded-Proto") != "https" || got.hdr.Get("X-Forwarded-Host") != "up.example" || got.hdr.Get("X-Forwarded-Port") != "444" || got.hdr.Get("X-Real-Ip") != "10.9.8.7" || got.hdr.Get("X-Forwarded-For") != "10.9.8.7, 127.0.0.1" {
		t.Errorf("values supplied by the upstream proxy not kept: %v", got.hdr)
	}
}

// Direct evaluation of the Rewrite contract on peer address forms.
func TestVerifReplayC08Rewrite(t *testing.T) {
	cases := []struct{ remote, host, wantIP, wantPort string }{
		{"10.1.2.3:5000", "h.example", "10.1.2.3", "80"},
		{"[2001:db8::2]:9", "h.example:81", "2001:db8::2", "81"},
		{"[fe80::1%eth0]:64692", "[::1]:8080", "fe80::1", "8080"},
		{"[fe80::d806:a55d:eb1b:49cc%vEthernet (vmxnet3 Ethernet Adapter - Virtual Switch)]:64692", "h.example", "fe80::d806:a55d:eb1b:49cc", "80"},
	}
	for _, c := range cases {
		for _, trust := range []bool{true, false} {
			rw := &HeaderRewriter{TrustForwardHeader: trust, Hostname: "me"}
			req := httptest.NewRequest("GET", "http://"+c.host+"/", nil)
			req.RemoteAddr = c.remote
			req.Header.Set("X-Forwarded-Proto", "ws")
			req.Header.Set("Other", "o")
			rw.Rewrite(req)
			wantProto := "ws"
			if !trust {
				wantProto = "http"
			}
			if req.Header.Get("X-Real-Ip") != c.wantIP || req.Header.Get("X-Forwarded-Port") != c.wantPort || req.Header.Get("X-Forwarded-Proto") != wantProto || req.Header.Get("X-Forwarded-Server") != "me" || req.Header.Get("Other") != "o" || req.Header.Get("X-Forwarded-Host") != c.host {
				t.Errorf("remote %q host %q trust %v: %v", c.remote, c.host, trust, req.Header)
			}
		}
	}
}
