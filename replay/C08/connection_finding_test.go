// replay-pkg: forward
// replay-obligations: forward\.theorem#c08_forwarding_headers_survive
// replay-run: TestVerifReplayC08ConnectionNamesForwardingHeader
package forward

import (
	"bufio"
	"fmt"
	"net"
	"net/http"
	"net/http/httptest"
	"net/url"
	"testing"
)

// The known finding: a client that lists forwarding headers in Connection makes the proxy drop the values the Director
// has just set (httputil removes the headers named in Connection after the Director ran).
func TestVerifReplayC08ConnectionNamesForwardingHeader(t *testing.T) {
	got, _ := c08findingRoundTrip(t, false, "GET /x HTTP/1.1\r\nHost: front.example:8443\r\nConnection: X-Forwarded-Proto, X-Real-Ip, X-Forwarded-Host\r\n\r\n")
	if got.hdr.Get("X-Forwarded-Proto") != "http" || got.hdr.Get("X-Real-Ip") != "127.0.0.1" || got.hdr.Get("X-Forwarded-Host") != "front.example:8443" {
		t.Errorf("Connection: X-Forwarded-Proto, X-Real-Ip, X-Forwarded-Host => backend sees Proto=%q Real-Ip=%q Host=%q", got.hdr.Get("X-Forwarded-Proto"), got.hdr.Get("X-Real-Ip"), got.hdr.Get("X-Forwarded-Host"))
	}
}


func c08findingRoundTrip(t *testing.T, passHost bool, raw string) (struct{ hdr http.Header }, string) {
	t.Helper()
	var got struct{ hdr http.Header }
	backend := httptest.NewServer(http.HandlerFunc(func(w http.ResponseWriter, r *http.Request) {
		got.hdr = r.Header.Clone()
		w.WriteHeader(200)
	}))
	defer backend.Close()
	bu, _ := url.Parse(backend.URL)
	f := New(passHost)
	proxy := httptest.NewServer(http.HandlerFunc(func(w http.ResponseWriter, r *http.Request) {
		r.URL.Scheme, r.URL.Host = bu.Scheme, bu.Host
		f.ServeHTTP(w, r)
	}))
	defer proxy.Close()
	conn, err := net.Dial("tcp", proxy.Listener.Addr().String())
	if err != nil {
		t.Fatal(err)
	}
	defer conn.Close()
	fmt.Fprint(conn, raw)
	resp, err := http.ReadResponse(bufio.NewReader(conn), nil)
	if err != nil {
		t.Fatalf("no response: %v", err)
	}
	resp.Body.Close()
	return got, bu.Host
}
