// replay-pkg: connlimit
// replay-obligations: connlimit\.\(\*ConnLimiter\)\.(acquire|release|ServeHTTP)#
// replay-run: TestVerifReplayC04
package connlimit

// Executable form of the C04 contracts, run against the real code on the solver's model and on a small
// exhaustive neighbourhood (max 0..3, current 0..4, amount 1..2); plus the panic/normal exit balance of ServeHTTP.

import (
	"encoding/json"
	"net/http"
	"net/http/httptest"
	"os"
	"strconv"
	"testing"

	"github.com/vulcand/oxy/v2/utils"
)

func TestVerifReplayC04(t *testing.T) {
	model := map[string]string{}
	_ = json.Unmarshal([]byte(os.Getenv("VERIF_MODEL")), &model)
	type cs struct{ max, cur, amount int64 }
	var cases []cs
	if a, err := strconv.ParseInt(model["amount"], 10, 64); err == nil && a >= 1 && a < 1<<40 {
		for m := int64(0); m <= 3; m++ {
			for c := int64(0); c <= 4; c++ {
				cases = append(cases, cs{m, c, a})
			}
		}
	}
	for m := int64(-1); m <= 3; m++ {
		for c := int64(0); c <= 4; c++ {
			for a := int64(1); a <= 2; a++ {
				cases = append(cases, cs{m, c, a})
			}
		}
	}
	ext, _ := utils.NewExtractor("client.ip")
	for _, c := range cases {
		cl, err := New(nil, ext, c.max)
		if err != nil {
			t.Fatal(err)
		}
		if c.cur != 0 {
			cl.connections["a"] = c.cur
			cl.totalConnections = c.cur
		}
		cl.connections["b"] = 1
		cl.totalConnections++
		err = cl.acquire("a", c.amount)
		want := c.cur < c.max
		if (err == nil) != want {
			t.Fatalf("acquire: max=%d current=%d amount=%d: admitted=%v, contract says %v", c.max, c.cur, c.amount, err == nil, want)
		}
		exp := c.cur
		if err == nil {
			exp += c.amount
		}
		if cl.connections["a"] != exp || cl.connections["b"] != 1 || cl.totalConnections != exp+1 {
			t.Fatalf("acquire: max=%d current=%d amount=%d: connections=%v total=%d, expected a=%d b=1", c.max, c.cur, c.amount, cl.connections, cl.totalConnections, exp)
		}
		if err == nil {
			cl.release("a", c.amount)
			if cl.connections["a"] != c.cur || cl.totalConnections != c.cur+1 {
				t.Fatalf("release: connections=%v total=%d, expected a=%d", cl.connections, cl.totalConnections, c.cur)
			}
			if _, ok := cl.connections["a"]; ok && c.cur == 0 {
				t.Fatalf("release: entry not deleted at zero")
			}
		}
	}
	// exits of ServeHTTP: normal and panicking handlers must give the slot back
	for _, panics := range []bool{false, true} {
		inside := int64(-1)
		var cl *ConnLimiter
		h := http.HandlerFunc(func(w http.ResponseWriter, r *http.Request) {
			inside = cl.connections["1.2.3.4"]
			if panics {
				panic("boom")
			}
		})
		cl, _ = New(h, ext, 1)
		req := httptest.NewRequest(http.MethodGet, "http://x/", nil)
		req.RemoteAddr = "1.2.3.4:5"
		func() {
			defer func() { _ = recover() }()
			cl.ServeHTTP(httptest.NewRecorder(), req)
		}()
		if inside != 1 {
			t.Fatalf("ServeHTTP(panics=%v): handler saw %d slots held, expected 1", panics, inside)
		}
		if n := cl.connections["1.2.3.4"]; n != 0 || cl.totalConnections != 0 {
			t.Fatalf("ServeHTTP(panics=%v): %d slots still held after the request ended (total %d)", panics, n, cl.totalConnections)
		}
	}
}
