// replay-pkg: buffer
// replay-obligations: buffer\.
// replay-run: TestVerifReplayC07
package buffer

// Replay harness for C07: the executable form of "the client gets exactly one response: the final attempt's".

import (
	"fmt"
	"net/http"
	"net/http/httptest"
	"testing"
)

func c07serve(t *testing.T, b *Buffer, method string) (rec *httptest.ResponseRecorder, panicked interface{}) {
	t.Helper()
	rec = httptest.NewRecorder()
	defer func() { panicked = recover() }()
	b.ServeHTTP(rec, httptest.NewRequest(method, "http://example.test/x", nil))
	return rec, nil
}

func TestVerifReplayC07ImplicitStatus(t *testing.T) {
	b, err := New(http.HandlerFunc(func(w http.ResponseWriter, r *http.Request) { _, _ = w.Write([]byte("hello")) }))
	if err != nil {
		t.Fatal(err)
	}
	rec, p := c07serve(t, b, "GET")
	if p != nil {
		t.Fatalf("handler that writes without choosing a status: ServeHTTP panicked: %v", p)
	}
	if rec.Code != 200 || rec.Body.String() != "hello" {
		t.Fatalf("handler that writes without choosing a status: got %d %q, want 200 \"hello\"", rec.Code, rec.Body.String())
	}
}

func TestVerifReplayC07EmptyBody(t *testing.T) {
	for _, code := range []int{200, 201, 404, 500} {
		b, _ := New(http.HandlerFunc(func(w http.ResponseWriter, r *http.Request) {
			w.Header().Set("X-From-Handler", "1")
			w.WriteHeader(code)
		}))
		rec, p := c07serve(t, b, "GET")
		if p != nil {
			t.Fatalf("status %d without body: panic %v", code, p)
		}
		if rec.Code != code || rec.Body.Len() != 0 || rec.Header().Get("X-From-Handler") != "1" {
			t.Fatalf("status %d without body delivered as %d %q %v", code, rec.Code, rec.Body.String(), rec.Header())
		}
	}
}

func TestVerifReplayC07FinalAttemptOnly(t *testing.T) {
	for _, failures := range []int{0, 1, 3, 9, 10, 11, 15} {
		calls := 0
		b, err := New(http.HandlerFunc(func(w http.ResponseWriter, r *http.Request) {
			calls++
			if calls <= failures {
				w.Header().Set("X-Discarded", fmt.Sprint(calls))
				w.WriteHeader(502)
				_, _ = w.Write([]byte(fmt.Sprintf("failure #%d", calls)))
				return
			}
			w.Header().Set("X-Final", "1")
			w.WriteHeader(201)
			_, _ = w.Write([]byte("done"))
		}), Retry(`IsNetworkError() && Attempts() <= 100`))
		if err != nil {
			t.Fatal(err)
		}
		rec, p := c07serve(t, b, "GET")
		if p != nil {
			t.Fatalf("panic %v", p)
		}
		wantCalls := failures + 1
		if wantCalls > 11 {
			wantCalls = 11
		}
		if calls != wantCalls {
			t.Fatalf("%d failing attempts: handler invoked %d times, want %d", failures, calls, wantCalls)
		}
		if failures < 11 {
			if rec.Code != 201 || rec.Body.String() != "done" || rec.Header().Get("X-Discarded") != "" {
				t.Fatalf("%d failing attempts: client got %d %q %v", failures, rec.Code, rec.Body.String(), rec.Header())
			}
		} else if rec.Code != 502 || rec.Body.String() != "failure #11" {
			t.Fatalf("%d failing attempts: client got %d %q, want the 11th attempt's response", failures, rec.Code, rec.Body.String())
		}
	}
}

func TestVerifReplayC07Comparisons(t *testing.T) {
	type tc struct {
		expr string
		code int
		att  int
		want bool
	}
	cases := []tc{
		{`ResponseCode() >= 500`, 500, 1, true}, {`ResponseCode() >= 500`, 499, 1, false}, {`ResponseCode() >= 500`, 501, 1, true},
		{`ResponseCode() <= 500`, 500, 1, true}, {`ResponseCode() <= 500`, 501, 1, false}, {`ResponseCode() > 500`, 500, 1, false},
		{`ResponseCode() < 500`, 499, 1, true}, {`ResponseCode() == 500 && Attempts() < 3`, 500, 3, false}, {`ResponseCode() != 500`, 500, 1, false},
		{`Attempts() >= 1`, 200, 1, true}, {`RequestMethod() == "GET" || ResponseCode() == 7`, 200, 1, true}, {`IsNetworkError()`, 502, 1, true}, {`IsNetworkError()`, 500, 1, false},
	}
	for _, c := range cases {
		p, err := parseExpression(c.expr)
		if err != nil {
			t.Fatalf("%s: %v", c.expr, err)
		}
		got := p(&context{r: httptest.NewRequest("GET", "http://x/", nil), attempt: c.att, responseCode: c.code})
		if got != c.want {
			t.Fatalf("%s with code %d attempt %d = %v, want %v", c.expr, c.code, c.att, got, c.want)
		}
	}
}
