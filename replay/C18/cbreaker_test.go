// replay-pkg: cbreaker
// replay-obligations: cbreaker\.
// replay-run: TestVerifReplayCB
package cbreaker

// Witness search for C05 / C12 / C18 on the real breaker with the frozen clock.

import (
	"net/http"
	"net/http/httptest"
	"sync/atomic"
	"testing"
	"time"

	"github.com/vulcand/oxy/v2/internal/holsterv4/clock"
)

type countingEffect struct{ n *int32 }

func (e countingEffect) Exec() error { atomic.AddInt32(e.n, 1); return nil }

func serveCB(cb *CircuitBreaker) int {
	rec := httptest.NewRecorder()
	cb.ServeHTTP(rec, httptest.NewRequest(http.MethodGet, "http://x/", nil))
	return rec.Code
}

// C05: from the trip until the fallback duration has elapsed nothing reaches the handler; standby passes everything.
func TestVerifReplayCBShield(t *testing.T) {
	for _, fb := range []time.Duration{3 * time.Second, 10 * time.Second} {
		done := clock.Freeze(time.Date(2024, 1, 1, 0, 0, 0, 0, time.UTC)).Unfreeze
		status := int32(500)
		var hits int32
		h := http.HandlerFunc(func(w http.ResponseWriter, r *http.Request) {
			atomic.AddInt32(&hits, 1)
			w.WriteHeader(int(atomic.LoadInt32(&status)))
		})
		var tripped, standby int32
		cb, err := New(h, "NetworkErrorRatio() > 0.5 || ResponseCodeRatio(500, 600, 0, 600) > 0.5",
			FallbackDuration(fb), RecoveryDuration(4*time.Second), CheckPeriod(100*time.Millisecond),
			OnTripped(countingEffect{&tripped}), OnStandby(countingEffect{&standby}))
		if err != nil {
			done()
			t.Fatal(err)
		}
		// standby: every request passes
		atomic.StoreInt32(&status, 200)
		for i := 0; i < 5; i++ {
			before := atomic.LoadInt32(&hits)
			serveCB(cb)
			if atomic.LoadInt32(&hits) != before+1 {
				done()
				t.Fatalf("standby: request %d did not reach the handler", i)
			}
			clock.Advance(50 * time.Millisecond)
		}
		atomic.StoreInt32(&status, 500)
		for i := 0; i < 30 && cb.state != stateTripped; i++ {
			serveCB(cb)
			clock.Advance(60 * time.Millisecond)
		}
		if cb.state != stateTripped {
			done()
			t.Fatalf("breaker did not trip on 100%% errors")
		}
		tripAt := clock.Now()
		atomic.StoreInt32(&status, 200)
		for clock.Now().Sub(tripAt) < fb-200*time.Millisecond {
			before := atomic.LoadInt32(&hits)
			code := serveCB(cb)
			if atomic.LoadInt32(&hits) != before || code != http.StatusServiceUnavailable {
				done()
				t.Fatalf("fallback %v: request %v after the trip reached the handler (code %d)", fb, clock.Now().Sub(tripAt), code)
			}
			clock.Advance(150 * time.Millisecond)
		}
		time.Sleep(20 * time.Millisecond)
		if n := atomic.LoadInt32(&tripped); n != 1 {
			done()
			t.Fatalf("on-tripped side effect ran %d times for one trip", n)
		}
		// C12: recovery ramp
		clock.Advance(400 * time.Millisecond)
		rec := 4 * time.Second
		var passed, total int
		var recStart time.Time
		for i := 0; i < 200; i++ {
			before := atomic.LoadInt32(&hits)
			serveCB(cb)
			if cb.state == stateRecovering {
				if recStart.IsZero() {
					recStart = cb.rc.start
				}
				total++
				if atomic.LoadInt32(&hits) != before {
					passed++
				}
				el := clock.Now().Sub(recStart)
				if float64(passed)/float64(total) > 0.5*float64(el)/float64(rec)+1e-9 {
					done()
					t.Fatalf("recovery: %d of %d passed after %v of %v: fraction above the ramp", passed, total, el, rec)
				}
			}
			if cb.state == stateStandby {
				break
			}
			clock.Advance(25 * time.Millisecond)
		}
		clock.Advance(5 * time.Second)
		before := atomic.LoadInt32(&hits)
		serveCB(cb)
		if cb.state != stateStandby || atomic.LoadInt32(&hits) != before+1 {
			done()
			t.Fatalf("after the recovery period the breaker is in state %v and the request was passed=%v", cb.state, atomic.LoadInt32(&hits) != before)
		}
		time.Sleep(20 * time.Millisecond)
		if n := atomic.LoadInt32(&standby); n != 1 {
			done()
			t.Fatalf("on-standby side effect ran %d times for one transition", n)
		}
		done()
	}
}

// C18: the expression operators have their standard meaning.
func TestVerifReplayCBExpressions(t *testing.T) {
	done := clock.Freeze(time.Date(2024, 1, 1, 0, 0, 0, 0, time.UTC)).Unfreeze
	defer done()
	cb, err := New(http.HandlerFunc(func(w http.ResponseWriter, r *http.Request) {}), "NetworkErrorRatio() > 2.0")
	if err != nil {
		t.Fatal(err)
	}
	for i := 0; i < 10; i++ { // 3 of 10 are 502/504, 5 of 10 are 5xx
		code := 200
		switch {
		case i < 2:
			code = 502
		case i < 3:
			code = 504
		case i < 5:
			code = 500
		}
		cb.metrics.Record(code, 10*time.Millisecond)
	}
	cases := map[string]bool{
		"NetworkErrorRatio() > 0.29":  true,
		"NetworkErrorRatio() > 0.3":   false,
		"NetworkErrorRatio() >= 0.3":  true,
		"NetworkErrorRatio() < 0.3":   false,
		"NetworkErrorRatio() <= 0.3":  true,
		"NetworkErrorRatio() == 0.3":  true,
		"NetworkErrorRatio() != 0.3":  false,
		"ResponseCodeRatio(500, 600, 0, 600) == 0.5":                              true,
		"ResponseCodeRatio(500, 600, 0, 600) > 0.4 && NetworkErrorRatio() > 0.4":  false,
		"ResponseCodeRatio(500, 600, 0, 600) > 0.4 || NetworkErrorRatio() > 0.4":  true,
		"ResponseCodeRatio(502, 503, 0, 600) == 0.2":                              true,
		"LatencyAtQuantileMS(50.0) >= 9 && LatencyAtQuantileMS(50.0) <= 11":      true,
		"LatencyAtQuantileMS(50.0) > 11":                                          false,
	}
	for expr, want := range cases {
		p, err := parseExpression(expr)
		if err != nil {
			t.Fatalf("%s: %v", expr, err)
		}
		if got := p(cb); got != want {
			t.Fatalf("condition %q evaluates to %v, standard semantics give %v", expr, got, want)
		}
	}
}
