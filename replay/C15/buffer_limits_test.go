// replay-pkg: buffer
// replay-obligations: buffer\.
// replay-run: TestVerifReplayC15
package buffer

// Replay harness for C15: size limits and the temporary directory after the exchange.

import (
	"bytes"
	"io"
	"net/http"
	"net/http/httptest"
	"os"
	"path/filepath"
	"strings"
	"testing"
)

func c15leftovers(t *testing.T, dir string) []string {
	t.Helper()
	m, _ := filepath.Glob(filepath.Join(dir, "temp-multibuf-*"))
	return m
}

func TestVerifReplayC15NoTempFiles(t *testing.T) {
	dir := t.TempDir()
	t.Setenv("TMPDIR", dir)
	big := bytes.Repeat([]byte("x"), 64)
	type sc struct {
		name, method string
		status       int
		opts         []Option
		panics       bool
	}
	scs := []sc{
		{"spilled 200", "GET", 200, []Option{MemResponseBodyBytes(4)}, false},
		{"spilled HEAD", "HEAD", 200, []Option{MemResponseBodyBytes(4)}, false},
		{"spilled 204", "GET", 204, []Option{MemResponseBodyBytes(4)}, false},
		{"spilled 304", "GET", 304, []Option{MemResponseBodyBytes(4)}, false},
		{"over the maximum after spilling", "GET", 200, []Option{MemResponseBodyBytes(4), MaxResponseBodyBytes(100)}, false},
		{"retried spilled responses", "GET", 503, []Option{MemResponseBodyBytes(4), Retry(`ResponseCode() == 503 && Attempts() <= 2`)}, false},
		{"handler panics after spilling", "GET", 200, []Option{MemResponseBodyBytes(4)}, true},
	}
	for _, s := range scs {
		b, err := New(http.HandlerFunc(func(w http.ResponseWriter, r *http.Request) {
			w.WriteHeader(s.status)
			_, _ = w.Write(big)
			_, _ = w.Write(big)
			if s.panics {
				panic(http.ErrAbortHandler)
			}
		}), s.opts...)
		if err != nil {
			t.Fatal(err)
		}
		func() {
			defer func() { _ = recover() }()
			b.ServeHTTP(httptest.NewRecorder(), httptest.NewRequest(s.method, "http://example.test/", strings.NewReader("0123456789")))
		}()
		if left := c15leftovers(t, dir); len(left) > 0 {
			for _, f := range left {
				os.Remove(f)
			}
			t.Errorf("%s: %d temporary file(s) left behind: %v", s.name, len(left), left)
		}
	}
}

func TestVerifReplayC15Limits(t *testing.T) {
	reached := false
	h := http.HandlerFunc(func(w http.ResponseWriter, r *http.Request) {
		reached = true
		_, _ = io.Copy(io.Discard, r.Body)
		w.WriteHeader(200)
		_, _ = w.Write(bytes.Repeat([]byte("y"), 10))
	})
	for _, mem := range []int64{2, 4, 8} {
		for _, size := range []int{3, 4, 5, 9} {
			for _, declared := range []bool{true, false} {
				reached = false
				b, _ := New(h, MaxRequestBodyBytes(4), MemRequestBodyBytes(mem))
				req := httptest.NewRequest("POST", "http://example.test/", bytes.NewReader(bytes.Repeat([]byte("z"), size)))
				if !declared {
					req.ContentLength = -1
				}
				rec := httptest.NewRecorder()
				b.ServeHTTP(rec, req)
				if size > 4 && (reached || rec.Code != http.StatusRequestEntityTooLarge) {
					t.Errorf("request of %d bytes (declared=%v, mem=%d) over the maximum 4: status %d, handler reached=%v", size, declared, mem, rec.Code, reached)
				}
				if size <= 4 && (!reached || rec.Code != 200) {
					t.Errorf("request of %d bytes within the maximum: status %d, reached=%v", size, rec.Code, reached)
				}
			}
		}
	}
	for _, method := range []string{"GET", "HEAD"} {
		b, _ := New(h, MaxResponseBodyBytes(4))
		rec := httptest.NewRecorder()
		b.ServeHTTP(rec, httptest.NewRequest(method, "http://example.test/", nil))
		if rec.Code < 500 || bytes.Contains(rec.Body.Bytes(), []byte("yy")) {
			t.Errorf("%s response over the maximum relayed: %d %q", method, rec.Code, rec.Body.String())
		}
	}
}
