// replay-pkg: forward
// replay-obligations: forward\.
// replay-run: TestVerifReplayC16
package forward

// Connection-state notifications are paired, also when forwarding is aborted midway (the wrapped handler panics,
// which is what httputil.ReverseProxy does with http.ErrAbortHandler when the body copy fails).

import (
	"net/http"
	"net/http/httptest"
	"net/url"
	"testing"
)

func TestVerifReplayC16Paired(t *testing.T) {
	for _, abort := range []bool{false, true} {
		var events []int
		next := http.HandlerFunc(func(w http.ResponseWriter, r *http.Request) {
			if abort {
				panic(http.ErrAbortHandler)
			}
		})
		sl := NewStateListener(next, func(u *url.URL, state int) { events = append(events, state) })
		func() {
			defer func() { _ = recover() }()
			sl.ServeHTTP(httptest.NewRecorder(), httptest.NewRequest(http.MethodGet, "http://x/", nil))
		}()
		if len(events) != 2 || events[0] != StateConnected || events[1] != StateDisconnected {
			t.Fatalf("abort=%v: notifications %v, expected [connected disconnected]", abort, events)
		}
	}
}
