// replay-pkg: roundrobin/stickycookie
// replay-obligations: stickycookie\.
// replay-run: TestVerifReplayC11
package stickycookie

// Replay harness for C11 (codec level): the cookie minted for a pool member is recognised as that member, for every encoding
// and a corpus of valid server URLs; anything else is answered with "no server", never a panic, never a non-member.

import (
	"net/url"
	"testing"
	"time"
)

func c11servers(t *testing.T) []*url.URL {
	t.Helper()
	var out []*url.URL
	for _, s := range []string{
		"http://10.0.0.1:8080", "http://10.0.0.2:8080/", "https://b.example/app", "http://user:pw@c.example:81/x",
		"http://d.example/p?shard=1", "http://e.example/a%20b", "http://f.example/q?x=a|b", "http://[::1]:9/v6",
	} {
		u, err := url.Parse(s)
		if err != nil {
			t.Fatal(err)
		}
		out = append(out, u)
	}
	return out
}

func c11codecs(t *testing.T) map[string]CookieValue {
	t.Helper()
	aes1, err := NewAESValue([]byte("0123456789abcdef"), 0)
	if err != nil {
		t.Fatal(err)
	}
	aesTTL, _ := NewAESValue([]byte("0123456789abcdef"), time.Hour)
	fb, _ := NewFallbackValue(&RawValue{}, aesTTL)
	fb2, _ := NewFallbackValue(aes1, &HashValue{Salt: "s"})
	return map[string]CookieValue{"raw": &RawValue{}, "hash": &HashValue{Salt: "salt"}, "aes": aes1, "aes-ttl": aesTTL, "raw->aes-ttl": fb, "aes->hash": fb2}
}

func TestVerifReplayC11RoundTrip(t *testing.T) {
	servers := c11servers(t)
	for name, cv := range c11codecs(t) {
		for _, s := range servers {
			got, err := func() (u *url.URL, err error) {
				defer func() {
					if r := recover(); r != nil {
						t.Errorf("%s: cookie for %s: panic %v", name, s, r)
					}
				}()
				return cv.FindURL(cv.Get(s), servers)
			}()
			if err != nil || got == nil || got.Scheme != s.Scheme || got.Host != s.Host || got.Path != s.Path {
				t.Errorf("%s: the cookie minted for %s is not recognised as that server (got %v, err %v)", name, s, got, err)
			}
		}
	}
}

func TestVerifReplayC11ForeignValues(t *testing.T) {
	servers := c11servers(t)
	bad := []string{"", "x", "Jl", "%zz", "http://nobody.example/", "f5f5f51e761137d", "AAAAAAAAAAAAAAAAAAAAAAAAAAAAAAAAAAAAAAAAAAAAAAAAAAAAAAAA", "http://10.0.0.1:8080/other"}
	for name, cv := range c11codecs(t) {
		for _, b := range bad {
			func() {
				defer func() {
					if r := recover(); r != nil {
						t.Errorf("%s: value %q: panic %v", name, b, r)
					}
				}()
				got, _ := cv.FindURL(b, servers)
				if got != nil {
					in := false
					for _, s := range servers {
						in = in || s == got
					}
					if !in {
						t.Errorf("%s: value %q answered a URL outside the pool: %v", name, b, got)
					}
				}
			}()
		}
	}
}
