// replay-pkg: trace
// replay-obligations: trace\.
// replay-run: TestVerifReplayC09
// replay-flags: -race
package trace

import (
	"bytes"
	"net/http"
	"net/http/httptest"
	"sync"
	"testing"
)

func TestVerifReplayC09Tracer(t *testing.T) {
	var buf bytes.Buffer
	tr, err := New(http.HandlerFunc(func(w http.ResponseWriter, r *http.Request) {}), &buf)
	if err != nil {
		t.Fatal(err)
	}
	var wg sync.WaitGroup
	for g := 0; g < 4; g++ {
		wg.Add(1)
		go func() {
			defer wg.Done()
			for j := 0; j < 100; j++ {
				tr.ServeHTTP(httptest.NewRecorder(), httptest.NewRequest(http.MethodGet, "http://x/", nil))
			}
		}()
	}
	wg.Wait()
	if n := bytes.Count(buf.Bytes(), []byte("\n")); n != 400 {
		t.Fatalf("400 requests traced concurrently, %d records in the output", n)
	}
}
