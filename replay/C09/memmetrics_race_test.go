// replay-pkg: memmetrics
// replay-obligations: memmetrics\.\(\*RTMetrics\)|cbreaker\.responseCodeRatio
// replay-run: TestVerifReplayC09
// replay-flags: -race
package memmetrics

// Replay of the C09 obligations on RTMetrics with the race detector (replay only; the deciding step is the lock-discipline obligation).

import (
	"sync"
	"testing"
	"time"
)

func TestVerifReplayC09Metrics(t *testing.T) {
	m, err := NewRTMetrics()
	if err != nil {
		t.Fatal(err)
	}
	var wg sync.WaitGroup
	for g := 0; g < 4; g++ {
		wg.Add(1)
		go func(g int) {
			defer wg.Done()
			for j := 0; j < 300; j++ {
				m.Record(500+g%2*2, time.Millisecond)
				_ = m.NetworkErrorRatio()
				_ = m.ResponseCodeRatio(500, 600, 0, 600)
				_ = m.TotalCount()
				_ = m.StatusCodesCounts()
				if j%100 == 99 {
					_ = m.Export()
				}
			}
		}(g)
	}
	wg.Wait()
	if n := m.TotalCount(); n != 1200 {
		t.Fatalf("1200 responses recorded concurrently, TotalCount() = %d (lost updates)", n)
	}
}
