// replay-pkg: cbreaker
// replay-obligations: cbreaker\.
// replay-run: TestVerifReplayC09
// replay-flags: -race
package cbreaker

import (
	"errors"
	"fmt"
	"net/http"
	"net/http/httptest"
	"sync"
	"testing"
	"time"

	"github.com/vulcand/oxy/v2/internal/holsterv4/clock"
)

type fmtLogger struct{}

func (fmtLogger) Debug(string, ...interface{}) {}
func (fmtLogger) Info(string, ...interface{})  {}
func (fmtLogger) Warn(string, ...interface{})  {}
func (fmtLogger) Error(f string, a ...interface{}) { _ = fmt.Sprintf(f, a...) }
func (fmtLogger) Fatal(string, ...interface{}) {}

type failingEffect struct{}

func (failingEffect) Exec() error { return errors.New("webhook down") }

func TestVerifReplayC09Breaker(t *testing.T) {
	done := clock.Freeze(time.Date(2024, 1, 1, 0, 0, 0, 0, time.UTC)).Unfreeze
	defer done()
	h := http.HandlerFunc(func(w http.ResponseWriter, r *http.Request) { w.WriteHeader(500) })
	cb, err := New(h, "ResponseCodeRatio(500, 600, 0, 600) > 0.5", CheckPeriod(time.Millisecond), FallbackDuration(time.Second),
		RecoveryDuration(time.Second), OnTripped(failingEffect{}), OnStandby(failingEffect{}), Logger(fmtLogger{}))
	if err != nil {
		t.Fatal(err)
	}
	var wg sync.WaitGroup
	for g := 0; g < 4; g++ {
		wg.Add(1)
		go func() {
			defer wg.Done()
			for j := 0; j < 200; j++ {
				cb.ServeHTTP(httptest.NewRecorder(), httptest.NewRequest(http.MethodGet, "http://x/", nil))
				clock.Advance(20 * time.Millisecond)
			}
		}()
	}
	wg.Wait()
	time.Sleep(50 * time.Millisecond)
}
