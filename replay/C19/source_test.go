// replay-pkg: utils
// replay-obligations: utils\.(extractClientIP|extractHost|makeHeaderExtractor|NewExtractor)
// replay-run: TestVerifReplayC19
package utils

// The client.ip extractor yields exactly the peer address for every host:port form net/http produces.

import (
	"net"
	"net/http"
	"testing"
)

func TestVerifReplayC19(t *testing.T) {
	ext, err := NewExtractor("client.ip")
	if err != nil {
		t.Fatal(err)
	}
	hosts := []string{"1.2.3.4", "10.0.0.1", "::1", "2001:db8::1", "2001:db8::2", "fe80::1%eth0", "fe80::2%eth0"}
	seen := map[string]string{}
	for _, h := range hosts {
		for _, port := range []string{"80", "54321"} {
			addr := net.JoinHostPort(h, port) // what net/http puts into RemoteAddr
			tok, amount, err := ext.Extract(&http.Request{RemoteAddr: addr})
			if err != nil || amount != 1 {
				t.Fatalf("RemoteAddr %q: token %q amount %d err %v", addr, tok, amount, err)
			}
			if tok != h {
				t.Fatalf("RemoteAddr %q: token %q, the peer address is %q", addr, tok, h)
			}
			if prev, ok := seen[tok]; ok && prev != h {
				t.Fatalf("addresses %q and %q share the token %q", prev, h, tok)
			}
			seen[tok] = h
		}
	}
	for _, v := range []string{"request.header.", "client.port", "", "request.header"} {
		if e, err := NewExtractor(v); err == nil || e != nil {
			t.Fatalf("NewExtractor(%q) accepted an unsupported variable", v)
		}
	}
}
