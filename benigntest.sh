#!/bin/bash
# benigntest.sh [name ...]: must-stay-silent corpus. Every behaviour-preserving change under /verif/benign (renamed
# receivers / parameters / locals, extra log lines, independent statements reordered, harmless new methods, unrelated
# additions) is applied to a scratch copy of /repo's working tree; the checks of the properties named in its meta.json
# must report nothing there. Exit 0: all silent; exit 2: a check raised an alarm on a behaviour-preserving change.
set -u
cd "$(dirname "$0")"
export GOFLAGS=-mod=mod GOPROXY=off GOSUMDB=off GOTOOLCHAIN=local
rc=0
ONLY=""
if [ "${1:-}" = "--prop" ]; then ONLY="$2"; shift 2; fi
names=("$@")
[ ${#names[@]} -eq 0 ] && names=($(ls benign))
for n in "${names[@]}"; do
  d=benign/$n
  [ -f "$d/patch.diff" ] || continue
  props=$(python3 -c "import json;print(' '.join(json.load(open('$d/meta.json'))['properties']))")
  if [ -n "$ONLY" ]; then
    case " $props " in *" $ONLY "*) props="$ONLY";; *) continue;; esac
  fi
  S=$(mktemp -d /var/tmp/verif-benign.XXXXXX)
  rsync -a --exclude .git "${VERIF_REPO:-/repo}"/ "$S"/
  if ! (cd "$S" && patch -p1 -s --no-backup-if-mismatch < "$OLDPWD/$d/patch.diff" >/dev/null 2>&1); then
    echo "BENIGN $n: patch no longer applies (skipped)"; rm -rf "$S"; continue
  fi
  for p in $props; do
    out=$(VERIF_NO_REPLAY=1 bin/goverif prop -id "$p" -tier quick -repo "$S" -verif "$(pwd)" -evidence "$S/.evidence" 2>&1)
    if echo "$out" | grep -q '^VIOLATION\|^KNOWN-FINDING.*new'; then
      echo "BENIGN $n $p: ALARM"; echo "$out" | grep '^VIOLATION' | sed 's/replay=[^ ]* //' | cut -c1-200 | head -5
      rc=2
    else
      echo "BENIGN $n $p: silent"
    fi
  done
  rm -rf "$S"
done
exit $rc
